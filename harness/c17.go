package main

// C17 -- handler lifecycle well-defined and safe under concurrent use.
// Sequential part: random API histories (Accept of genuine / duplicate / foreign / abort-notice messages, CanAccept, Stop, Result)
// applied to one handler at every point of xor / FROST sessions; each history is replayed in the Coq model (Stop guard "fixed").
// Concurrent part: the same calls from several goroutines in a binary built with -race (run by ./check as `vh_race C17RACE`).

import (
	"fmt"
	"math/rand"
	"runtime"
	"strings"
	"sync"

	"github.com/taurusgroup/multi-party-sig/pkg/math/curve"
	"github.com/taurusgroup/multi-party-sig/pkg/party"
	"github.com/taurusgroup/multi-party-sig/pkg/protocol"
	"github.com/taurusgroup/multi-party-sig/protocols/doerner"
)

func init() { props["C17"] = runC17; props["C17RACE"] = runC17Race }

type c17Replay struct {
	Spec    string   `json:"spec"`
	Seed    int64    `json:"seed"`
	Victim  string   `json:"victim"`
	History []string `json:"history"`
	What    string   `json:"what"`
	Model   string   `json:"model_observation,omitempty"`
	Real    string   `json:"real_observation,omitempty"`
	Event   int      `json:"event,omitempty"`
}

func resultClass(h protocol.Handler) (int, string) {
	r, err := h.Result()
	if err == nil && r != nil {
		return 1, resultFP(r)
	}
	if err != nil && strings.Contains(err.Error(), "not finished") {
		return 0, ""
	}
	if err != nil {
		return 2, err.Error()
	}
	return 3, "nil result and nil error"
}

// pts: per party the messages it receives in an honest run; withPanic: processing one of the victim's incoming messages
// (seeded choice among pts) panics inside the round (c17_panic.go)
// conf != nil: the history also contains conflicting duplicates (conflict.go): a second, different but individually valid message of
// the same sender / round / kind, delivered after a genuine message the victim has been given (round to come, open, closed, or
// after the end); it must change nothing, and a victim that completes returns the result of the undisturbed run with that seed.
func (c *ctx) c17History(sp SessionSpec, seed int64, sh shapeInfo, pts map[party.ID][]c17PanicPoint, withPanic bool, conf *conflictSet) {
	det := installDetReader(seed, 0)
	defer restoreRandReader()
	rng := rand.New(rand.NewSource(seed))
	sorted := party.NewIDSlice(sp.IDs)
	victim := sorted[rng.Intn(len(sorted))]
	// the panicking message is chosen from a separate stream: the history itself is the one the seed gives without it
	var plan *c17PanicPlan
	if prng := rand.New(rand.NewSource(seed ^ 0x5eed17)); withPanic && len(pts[victim]) > 0 {
		plan = &c17PanicPlan{Pt: pts[victim][prng.Intn(len(pts[victim]))], Val: roundPanicValue}
		plan.Pt.Fin = prng.Intn(3) == 0 // a third: the message is accepted, Finalize of its round panics
		sp = c17WithPanic(sp, victim, plan)
	}
	s := sp.build(rng, det)
	v := s.Nodes[victim]
	var hist []string
	if plan != nil {
		hist = append(hist, "processing "+plan.Pt.String()+" panics")
	}
	if conf != nil {
		hist = append(hist, "with conflicting duplicates")
	}
	var given []*protocol.Message // genuine messages the victim has been given so far
	nConf := 0
	// what the model is told about a message: the one the round code panics on carries the model's panic flag
	// (1 = while verifying / storing it, 2 = in Finalize of its round); it is a genuine message otherwise (valid)
	mark := func(e *Env) *Env {
		if plan != nil && e.To == victim && plan.Pt.matches(e.Msg) {
			e.Panics = plan.Pt.flag()
		}
		return e
	}
	// deliver to the victim; the call in which the panic fires must end the running session with the panic error, naming nobody
	deliverV := func(e *Env) Obs {
		before, was := 0, 0
		if plan != nil {
			before = plan.Fired()
			was, _ = resultClass(v.H)
		}
		o := s.Deliver(mark(e))
		if plan != nil && plan.Fired() > before {
			if was != 0 {
				c.res.Violate("property", "C17/"+sp.Name+"/processed-after-end", "a message was processed by the round although the session had ended",
					c17Replay{Spec: sp.Name, Seed: seed, Victim: string(victim), History: append([]string{}, hist...), What: "processed-after-end"})
			}
			if o.Panic == "" && !o.Hung && (o.Class != 2 || !strings.HasPrefix(o.ErrText, c17PanicErrPrefix) || len(o.Culprits) != 0 || !o.Closed) {
				c.res.Violate("property", "C17/"+sp.Name+"/panic-not-contained", fmt.Sprintf("a panic while processing %s did not end the session cleanly (class %d, error %.80q, culprits %v, closed %v)",
					plan.Pt, o.Class, o.ErrText, o.Culprits, o.Closed),
					c17Replay{Spec: sp.Name, Seed: seed, Victim: string(victim), History: append([]string{}, hist...), What: "panic-not-contained"})
			}
		}
		return o
	}
	bad := func(what string) {
		c.res.Violate("property", "C17/"+sp.Name+"/"+strings.SplitN(what, ":", 2)[0], what,
			c17Replay{Spec: sp.Name, Seed: seed, Victim: string(victim), History: append([]string{}, hist...), What: what})
	}
	ended := false
	var endClass int
	var endFP string
	stoppedWhileRunning := false
	check := func() {
		o := v.Obs[len(v.Obs)-1]
		if o.Panic != "" {
			bad("panic: " + o.Panic)
		}
		if o.Hung {
			bad("blocked: call did not return while the outgoing channel was being drained")
		}
		cl, fp := resultClass(v.H)
		if cl == 3 {
			bad("result-nil-nil: Result returned neither a value nor an error")
		}
		if ended {
			if cl != endClass || fp != endFP {
				bad(fmt.Sprintf("result-changed: Result changed after the end (%d -> %d)", endClass, cl))
			}
		} else if cl != 0 {
			ended, endClass, endFP = true, cl, fp
		}
		if (cl != 0) != o.Closed {
			// closed exactly when the session has ended
			if cl != 0 {
				// give the channel one more non-blocking look
				s.collect(v)
				if !v.closed {
					bad("not-closed: session ended but Listen() is still open")
				}
			} else {
				bad("closed-early: Listen() closed while Result says not finished")
			}
		}
		if stoppedWhileRunning && cl != 2 {
			bad("stop-ineffective: Stop on a running session did not end it with an error")
		}
	}
	// genuine traffic interleaved with API calls on the victim
	steps := 0
	for (len(s.Flight) > 0 || steps < 6) && steps < 400 {
		steps++
		choice := rng.Intn(10)
		if plan != nil && plan.Fired() == 0 && (choice == 5 || choice == 6) && rng.Intn(3) != 0 {
			choice = 0 // histories with a panicking message: fewer early Stops / abort notices, so that the message is reached more often
		}
		if conf != nil && (choice == 5 || choice == 6) && rng.Intn(3) != 0 {
			choice = 9 // histories with conflicting duplicates: fewer early Stops / abort notices, more duplicates
		}
		switch {
		case conf != nil && (choice == 7 || choice == 9) && len(given) > 0:
			// a conflicting duplicate of a genuine message the victim already has
			v1 := given[rng.Intn(len(given))]
			ms, tags := conf.conflictsFor(v1, victim)
			if len(ms) == 0 {
				hist = append(hist, "Result")
				check()
				break
			}
			k := rng.Intn(len(ms))
			hist = append(hist, fmt.Sprintf("conflicting duplicate (%s) of %s/r%d", tags[k][1:], v1.From, v1.RoundNumber))
			nConf++
			if b := conflictQuiet(s, victim, ms[k], tags[k]); b != "" {
				bad("conflict-not-ignored: " + b)
			}
			check()
		case choice <= 4 && len(s.Flight) > 0:
			i := rng.Intn(len(s.Flight))
			e := s.take(i)
			hist = append(hist, "deliver "+envName(e))
			if e.To == victim {
				deliverV(e)
				if e.Msg.RoundNumber > 0 {
					given = append(given, e.Msg)
				}
				check()
			} else {
				s.Deliver(e)
			}
		case choice == 5:
			cl, _ := resultClass(v.H)
			hist = append(hist, "Stop")
			s.Stop(victim)
			if cl == 0 {
				stoppedWhileRunning = true
			}
			check()
		case choice == 6 && len(v.Out) > 0:
			// abort notice from a peer
			from := s.IDs[(v.Idx+1)%len(s.IDs)]
			m := &protocol.Message{SSID: v.Out[0].SSID, From: from, Protocol: v.Out[0].Protocol, Data: []byte("peer failed")}
			hist = append(hist, "abort-notice from "+string(from))
			cl, _ := resultClass(v.H)
			o := s.Deliver(&Env{Msg: m, To: victim, Valid: true, Tag: "/abort-notice"})
			if cl == 0 {
				if o.Class != 2 || len(o.Culprits) != 1 || o.Culprits[0] != s.idx(from) {
					bad("abort-notice: a peer's abort notice did not end the session naming exactly that peer")
				}
			}
			check()
		case choice == 7 && len(v.Out) > 0:
			// a message that must be ignored (foreign session / own message / stale)
			m := *v.Out[0]
			m.SSID = append([]byte{1}, m.SSID...)
			hist = append(hist, "foreign message")
			s.CanAccept(victim, &m, true)
			s.Deliver(&Env{Msg: &m, To: victim, Valid: true, Tag: "/foreign"})
			check()
		case choice == 8 && len(s.Flight) > 0:
			// duplicate of an in-flight message to the victim (keeps the original in flight)
			for _, e := range s.Flight {
				if e.To == victim {
					hist = append(hist, "dup "+envName(e))
					deliverV(&Env{Msg: e.Msg, To: e.To, Valid: true, Tag: "/dup"})
					check()
					break
				}
			}
		default:
			hist = append(hist, "Result")
			check()
		}
	}
	class := sp.Name
	if conf != nil {
		class += "/conflicting-duplicates"
		if nConf == 0 {
			class += "/none-reached"
		}
		// a victim that completes returns the result of the undisturbed run
		if cl, fp := resultClass(v.H); cl == 1 && conf.RefFP[victim] != "" && fp != conf.RefFP[victim] {
			bad("conflict-result-differs: the session completed with another result than the undisturbed run with the same party randomness")
		}
	}
	if plan != nil {
		class += map[bool]string{true: "/panic-recovered", false: "/panic-not-reached"}[plan.Fired() > 0]
		class += map[bool]string{true: "/in-finalize", false: "/in-verify"}[plan.Pt.Fin]
	}
	c.res.Case(class, sp.Name+strings.Join(hist, ","), len(hist) > 0)
	c.res.Sample(2, map[string]interface{}{"spec": sp.Name, "victim": victim, "history": hist})
	// model replay for every node
	for _, n := range s.Nodes {
		i, mo, ro, err := c.CompareWithModel(s, n, sh, true)
		if err != nil {
			c.res.Corr(false)
			c.res.Violate("correspondence", "C17/model-error", err.Error(), nil)
			continue
		}
		c.res.Corr(i < 0)
		if i >= 0 {
			c.res.Violate("correspondence", "C17/handler-model/"+sp.Name, "handler state differs from the Coq model (fixed Stop guard) after an API event",
				c17Replay{Spec: sp.Name, Seed: seed, Victim: string(n.ID), History: hist, Model: mo, Real: ro, Event: i, What: "model correspondence"})
		}
	}
}

func runC17(c *ctx) {
	c.res.Rule = "random API histories (deliver / Stop / abort notice / foreign / duplicate / Result) on one handler at random points of xor and FROST keygen sessions; " +
		"plus a third as many histories in which processing one incoming message panics inside the round (proxy round.Session): the session must end cleanly with the panic error; " +
		"plus a third as many histories with conflicting duplicates (a second, different but individually valid message of the same sender / round / kind after the genuine one: nothing changes, a completing victim returns the undisturbed result); " +
		"oracles: no panic, no hang, closed iff ended, Result stable after the end, Stop ends a running session; each history replayed in the Coq model " +
		"(the message the round code panics on carries the model's panic flag -- in verify/store, or in Finalize of its round -- and the full observation is compared: nobody named, error kind, forwarded messages, notice, closes, queues, digests); non-trivial = non-empty history; " +
		"concurrent sessions with a panicking message under Result / CanAccept / Stop / Accept from other goroutines (no escaping panic, Result fixed after the end, closed); " +
		"lazy reader: CMP signing sessions (n=2, n=3) in which nobody reads the victim's Listen() until the buffer is exactly full (2n), ended then by Stop / a peer's abort notice / an undecodable message / a message the round code panics on, " +
		"followed by further calls and the reader's final read (closed iff ended, Result stable, no hang other than the model's BlockedOnSend), replayed in the model with drain events"
	n := 150
	if c.thorough() {
		n = 3000
	}
	specs := []SessionSpec{
		specXOR(idsOf("a", "b", "c"), []byte("s")),
		specXOR(idsOf("a", "b"), nil),
		specFrostKeygen(idsOf("alice", "bob", "carl"), 1, false, []byte("k")),
	}
	// replay of one history (c17Replay) or one concurrent panic session (c17PanicSession)
	var rp c17Replay
	replaying := c.replay != "" && readJSON(c.replay, &rp) == nil && rp.Spec != ""
	for _, sp := range specs {
		// learn the shape from an honest in-order run
		det := installDetReader(5, 0)
		ref := sp.build(rand.New(rand.NewSource(5)), det)
		ref.RunFIFO(10000)
		restoreRandReader()
		sh := ref.learnShape()
		pts := c17PanicPoints(ref)
		if replaying {
			if rp.Spec == sp.Name {
				var conf *conflictSet
				if len(rp.History) > 0 && rp.History[0] == "with conflicting duplicates" {
					conf = conflictHarvest(sp, rp.Seed)
				}
				c.c17History(sp, rp.Seed, sh, pts, len(rp.History) > 0 && strings.HasPrefix(rp.History[0], "processing "), conf)
			}
			continue
		}
		for k := 0; k < n; k++ {
			c.c17History(sp, c.res.Seed*100000+int64(k), sh, pts, false, nil)
		}
		// further histories in which processing one incoming message panics inside the round
		for k := 0; k < n/3; k++ {
			c.c17History(sp, c.res.Seed*100000+50000+int64(k), sh, pts, true, nil)
		}
		// further histories with conflicting duplicates (a second, different message of the same sender for a round)
		for k := 0; k < n/3; k++ {
			seed := c.res.Seed*100000 + 70000 + int64(k)
			c.c17History(sp, seed, sh, pts, false, conflictHarvest(sp, seed))
		}
	}
	if replaying {
		if strings.HasPrefix(rp.Spec, "panic-recovery/") {
			var ps c17PanicSession
			if readJSON(c.replay, &ps) == nil {
				c.c17PanicConcurrent(ps.It, 1)
			}
		} else if strings.HasPrefix(rp.Spec, "doerner-") {
			c.c17TwoParty()
		} else if strings.Contains(rp.Spec, "/lazy-reader/") {
			c.c17LazyRun(&rp)
		}
		return
	}
	// sessions in which processing a message panics, under concurrent Result / CanAccept / Stop / Accept (c17_panic.go;
	// the same sessions run under the race detector in C17RACE)
	np := 12
	if c.thorough() {
		np = 120
	}
	c.c17PanicConcurrent(0, np)
	// several handlers of one party created from ONE config object, running concurrently (c17_shared.go)
	ns := 6
	if c.thorough() {
		ns = 40
	}
	c.c17SharedConfig(ns, 8)
	// TwoPartyHandler (Doerner sessions): same oracles, replayed in Model/TwoParty.v; a few of its (larger) histories go to cases.v
	c.m.MaxLog, c.m.MaxLogSize = c.m.MaxLog+12, 8000
	c.c17TwoParty()
	// sessions that end while the outgoing buffer is exactly full: a reader that does not read Listen() (c17_lazy.go)
	c.c17LazyRun(nil)
}

// runC17Race: concurrent use; meaningful only in the binary built with -race (the race detector aborts with exit code 66).
func runC17Race(c *ctx) {
	c.res.Rule = "4-8 goroutines call Accept/CanAccept/Listen/Result/Stop concurrently on the MultiHandlers of xor and FROST sessions and the TwoPartyHandlers of Doerner key generation (binary built with -race); " +
		"xor / FROST keygen sessions in which processing one message panics inside the round while other goroutines call Result / CanAccept / Stop / Accept; " +
		"8 concurrent FROST / FROST-Taproot signing sessions (same and different messages, all signer sets) whose handlers are created from ONE config object per party, results checked by the reference verifier"
	iters := 60
	if c.thorough() {
		iters = 600
	}
	for it := 0; it < iters; it++ {
		var sp SessionSpec
		hs := map[party.ID]protocol.Handler{}
		switch it % 3 {
		case 0:
			sp = specXOR(idsOf("a", "b", "c"), []byte{byte(it)})
		case 1:
			sp = specFrostKeygen(idsOf("alice", "bob", "carl"), 1, false, []byte{byte(it)})
		default:
			// TwoPartyHandler: Doerner key generation (receiver leads)
			ids := idsOf("recv", "send")
			sp = SessionSpec{Name: "doerner-keygen/twoparty", IDs: ids, SessionID: []byte{byte(it)}}
			g := curve.Secp256k1{}
			if h, err := protocol.NewTwoPartyHandler(doerner.Keygen(g, true, ids[0], ids[1], nil), sp.SessionID, true); err == nil {
				hs[ids[0]] = h
			}
			if h, err := protocol.NewTwoPartyHandler(doerner.Keygen(g, false, ids[1], ids[0], nil), sp.SessionID, false); err == nil {
				hs[ids[1]] = h
			}
		}
		if it%3 != 2 {
			for _, id := range sp.IDs {
				h, err := protocol.NewMultiHandler(sp.Start(id), sp.SessionID)
				if err != nil {
					continue
				}
				hs[id] = h
			}
		}
		var wg sync.WaitGroup
		inbox := map[party.ID]chan *protocol.Message{}
		for id := range hs {
			inbox[id] = make(chan *protocol.Message, 256)
		}
		var once sync.Once
		stopAll := make(chan struct{})
		for id, h := range hs {
			id, h := id, h
			// forwarder: Listen -> inboxes
			wg.Add(1)
			go func() {
				defer wg.Done()
				for m := range h.Listen() {
					for to, ch := range inbox {
						if m.IsFor(to) {
							select {
							case ch <- m:
							default:
							}
						}
					}
				}
			}()
			// two acceptors + one prober per handler
			for k := 0; k < 2; k++ {
				wg.Add(1)
				go func() {
					defer wg.Done()
					for {
						select {
						case m := <-inbox[id]:
							if h.CanAccept(m) {
								h.Accept(m)
							}
							h.Accept(m) // duplicate
						case <-stopAll:
							return
						}
					}
				}()
			}
			wg.Add(1)
			go func() {
				defer wg.Done()
				for i := 0; i < 200; i++ {
					_, err := h.Result()
					_ = h.CanAccept(&protocol.Message{From: "zz", Data: []byte{1}})
					if err == nil || !strings.Contains(err.Error(), "not finished") {
						break
					}
				}
				if it%4 == 0 {
					h.Stop()
				}
				once.Do(func() {})
			}()
			// stoppers with no other synchronisation with the handler: Stop at an arbitrary point of the session and again
			// after the end (from two goroutines), so that every access Stop makes is paired with the acceptors' writes
			if it%4 >= 2 {
				for k := 0; k < 2; k++ {
					k := k
					wg.Add(1)
					go func() {
						defer wg.Done()
						for i := 0; i < 50*(it%7)+k*1000; i++ {
							runtime.Gosched()
						}
						h.Stop()
						h.Stop()
					}()
				}
			}
		}
		// wait until all handlers ended, then release acceptors
		done := make(chan struct{})
		go func() {
			for {
				all := true
				for _, h := range hs {
					if _, err := h.Result(); err != nil && strings.Contains(err.Error(), "not finished") {
						all = false
					}
				}
				if all {
					close(done)
					return
				}
			}
		}()
		ok := withWatchdog(30e9, func() { <-done })
		close(stopAll)
		if !ok {
			c.res.Violate("property", "C17/race/"+sp.Name+"/hang", "concurrent session did not end", nil)
		}
		withWatchdog(10e9, func() { wg.Wait() })
		c.res.Case("race/"+sp.Name, fmt.Sprint(it), true)
	}
	// sessions in which processing a message panics inside a round while other goroutines call Result / CanAccept / Stop /
	// Accept on the same handler (c17_panic.go): the recovery must run under the handler's lock
	np := 36
	if c.thorough() {
		np = 360
	}
	c.c17PanicConcurrent(0, np)
	// several handlers of one party created from ONE config object, running concurrently (c17_shared.go)
	nsh := 6
	if c.thorough() {
		nsh = 40
	}
	c.c17SharedConfig(nsh, 8)
	c.res.Sample(1, "concurrent sessions completed; data races are reported by the race detector (exit code 66)")
}
