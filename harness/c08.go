package main

// C08 -- refresh preserves the key and retires old shares, across any history.
// Random histories (keygen, then refresh / serialize+restore / derive / sign) for FROST, FROST-Taproot, CMP and Doerner.
// After every step: the reference consistency checker (checkSharing); group key unchanged by refresh; every share changed;
// every mixed-epoch (t+1)-subset fails to reconstruct the key; signing with refreshed material succeeds (reference verifier);
// a session in which one signer still uses pre-refresh material never yields a signature -- on every signing entry point, every
// signer position, one and two refreshes back, material restored from bytes (c08_mixed.go).

import (
	"bytes"
	"fmt"
	"math/big"
	"strings"

	"github.com/fxamacker/cbor/v2"
	"github.com/taurusgroup/multi-party-sig/pkg/math/curve"
	"github.com/taurusgroup/multi-party-sig/pkg/party"
	"github.com/taurusgroup/multi-party-sig/pkg/protocol"
	"github.com/taurusgroup/multi-party-sig/pkg/taproot"
	"github.com/taurusgroup/multi-party-sig/protocols/cmp"
	"github.com/taurusgroup/multi-party-sig/protocols/doerner"
	"github.com/taurusgroup/multi-party-sig/protocols/frost"

	"verifharness/sx"
)

func init() { props["C08"] = runC08 }

type histReplay struct {
	Material string   `json:"material"`
	N, T     int
	History  []string `json:"history"`
	Problems []string `json:"problems"`
}

// refreshAll runs a refresh session with the given material; returns the new material.
func refreshAll(mat []interface{}, seed int64, tag string) ([]interface{}, string) {
	var ids []party.ID
	switch mat[0].(type) {
	case *frost.Config:
		cfgs := map[party.ID]*frost.Config{}
		for _, m := range mat {
			cfgs[m.(*frost.Config).ID] = m.(*frost.Config)
			ids = append(ids, m.(*frost.Config).ID)
		}
		sp := SessionSpec{Name: "frost-refresh", IDs: ids, SessionID: []byte(tag),
			Start: func(id party.ID) protocol.StartFunc { return frost.Refresh(cfgs[id], ids) }}
		s := runToEnd(sp, seed, "random")
		_, raw, probs := viewsOfSim(s)
		return raw, strings.Join(probs, "; ")
	case *frost.TaprootConfig:
		cfgs := map[party.ID]*frost.TaprootConfig{}
		for _, m := range mat {
			cfgs[m.(*frost.TaprootConfig).ID] = m.(*frost.TaprootConfig)
			ids = append(ids, m.(*frost.TaprootConfig).ID)
		}
		sp := SessionSpec{Name: "frost-taproot-refresh", IDs: ids, SessionID: []byte(tag),
			Start: func(id party.ID) protocol.StartFunc { return frost.RefreshTaproot(cfgs[id], ids) }}
		s := runToEnd(sp, seed, "lifo")
		_, raw, probs := viewsOfSim(s)
		return raw, strings.Join(probs, "; ")
	case *cmp.Config:
		cfgs := map[party.ID]*cmp.Config{}
		for _, m := range mat {
			cfgs[m.(*cmp.Config).ID] = m.(*cmp.Config)
			ids = append(ids, m.(*cmp.Config).ID)
		}
		s := runToEnd(specCMPRefresh(cfgs, ids, []byte(tag)), seed, "fifo")
		_, raw, probs := viewsOfSim(s)
		return raw, strings.Join(probs, "; ")
	}
	return nil, fmt.Sprintf("no refresh for %T", mat[0])
}

// restoreAll serializes and restores every party's material with the documented encoders
func restoreAll(mat []interface{}) ([]interface{}, string) {
	var out []interface{}
	for _, m := range mat {
		var err error
		var r interface{}
		func() {
			defer func() {
				if p := recover(); p != nil {
					err = fmt.Errorf("PANIC: %v", p)
				}
			}()
			switch cf := m.(type) {
			case *frost.Config:
				var b []byte
				if b, err = cbor.Marshal(cf); err == nil {
					n := frost.EmptyConfig(curve.Secp256k1{})
					err = cbor.Unmarshal(b, n)
					r = n
				}
			case *frost.TaprootConfig:
				var b []byte
				if b, err = cbor.Marshal(cf); err == nil {
					n := &frost.TaprootConfig{}
					err = cbor.Unmarshal(b, n)
					r = n
				}
			case *cmp.Config:
				var b []byte
				if b, err = cf.MarshalBinary(); err == nil {
					n := cmp.EmptyConfig(curve.Secp256k1{})
					err = n.UnmarshalBinary(b)
					r = n
				}
			default:
				err = fmt.Errorf("no restore for %T", m)
			}
		}()
		if err != nil {
			return nil, err.Error()
		}
		out = append(out, r)
	}
	return out, ""
}

func (c *ctx) c08History(label string, n, t int, mat0 []interface{}, ops []string, seed int64) {
	var probs []string
	hist := []string{"keygen"}
	cur := mat0
	views := func(mat []interface{}) []*shareView {
		var vs []*shareView
		for _, m := range mat {
			if v, err := viewOfResult(m); err == nil {
				vs = append(vs, v)
			}
		}
		return vs
	}
	v0 := views(cur)
	p0, secret := c.checkSharing(v0, 6)
	probs = append(probs, p0...)
	// every epoch's material as bytes, for the mixed-epoch signing sessions (c08_mixed.go)
	store := newC08Store(label, t, seed)
	if err := store.pushList(cur); err != nil {
		probs = append(probs, "serialize/restore failed: "+err.Error())
	}
	refreshes := 0
	for k, op := range ops {
		if len(probs) > 0 {
			break
		}
		hist = append(hist, op)
		switch op {
		case "refresh":
			old := views(cur)
			// (the pre-refresh material is kept as bytes in `store`, as a party would have it on disk: the library's Refresh may
			// alias and update scalars of the config it is given, so the in-memory object is not a faithful "old" copy)
			next, et := refreshAll(cur, seed+int64(k), fmt.Sprintf("rf%d", k))
			if et != "" || len(next) != len(cur) {
				probs = append(probs, "refresh did not complete: "+et)
				break
			}
			nv := views(next)
			p1, sec2 := c.checkSharing(nv, 6)
			for _, p := range p1 {
				probs = append(probs, "after refresh: "+p)
			}
			// group key unchanged
			a, _ := c.ptSx(old[0].Pub)
			b, _ := c.ptSx(nv[0].Pub)
			if !a.Equal(b) {
				probs = append(probs, "refresh changed the group public key")
			}
			if secret != nil && sec2 != nil && secret.Cmp(sec2) != 0 {
				probs = append(probs, "refresh changed the secret key")
			}
			// every share changed
			oldShare := map[party.ID]*big.Int{}
			for _, v := range old {
				oldShare[v.ID] = v.Share
			}
			for _, v := range nv {
				if oldShare[v.ID] != nil && oldShare[v.ID].Cmp(v.Share) == 0 {
					probs = append(probs, fmt.Sprintf("share-unchanged/t=%d: secret share of %s is unchanged by refresh", t, v.ID))
				}
			}
			// mixed-epoch reconstruction must fail (t >= 1)
			if t >= 1 && secret != nil {
				var ids []party.ID
				for _, v := range nv {
					ids = append(ids, v.ID)
				}
				newShare := map[party.ID]*big.Int{}
				for _, v := range nv {
					newShare[v.ID] = v.Share
				}
				for _, S := range subsetsOfSize(party.NewIDSlice(ids), t+1) {
					for mask := 1; mask < (1<<len(S))-1; mask++ {
						var xs, ys []sx.V
						for i, id := range S {
							xs = append(xs, sx.Big(idScalar(id)))
							if mask&(1<<i) != 0 {
								ys = append(ys, sx.Big(oldShare[id]))
							} else {
								ys = append(ys, sx.Big(newShare[id]))
							}
						}
						r, err := c.m.Call("poly.interpolate0", sx.List(sx.Big(secpQ), sx.List(xs...), sx.List(ys...)))
						if err == nil && r.Z.Cmp(secret) == 0 {
							probs = append(probs, fmt.Sprintf("mixed-epoch: old and new shares of %v (mask %b) reconstruct the key", S, mask))
						}
					}
				}
			}
			// stale signers: every signing entry point, every way of giving one / all but one signer pre-refresh material
			// (restored from bytes), one and two refreshes old; after the first and the second refresh (thorough: every refresh)
			refreshes++
			if err := store.pushList(next); err != nil {
				probs = append(probs, "serialize/restore failed: "+err.Error())
			} else if len(probs) == 0 && (refreshes <= 2 || c.thorough()) {
				c.c08MixedHistory(store)
			}
			cur = next
		case "restore":
			next, et := restoreAll(cur)
			if et != "" {
				probs = append(probs, "serialize/restore failed: "+et)
				break
			}
			p1, _ := c.checkSharing(views(next), 4)
			for _, p := range p1 {
				probs = append(probs, "after restore: "+p)
			}
			// restored material of party 0 together with the others' un-restored material
			cur = append([]interface{}{next[0]}, cur[1:]...)
		case "derive":
			next, et := deriveAll(cur, uint32(7+k))
			if et != "" {
				probs = append(probs, "derive failed: "+et)
				break
			}
			p1, sec2 := c.checkSharing(views(next), 4)
			for _, p := range p1 {
				probs = append(probs, "after derive: "+p)
			}
			secret = sec2
			cur = next
			// the stored epochs follow the derivation (stale material of the SAME key)
			if err := store.derive(uint32(7 + k)); err != nil {
				probs = append(probs, "derive failed: stored pre-refresh material: "+err.Error())
			}
		case "sign":
			probs = append(probs, c.signWith(cur, t, []byte(fmt.Sprintf("c08-%d-%d", seed, k)))...)
		}
	}
	// the t=0 "share unchanged" outcome is what the model predicts too (C08_threshold0_shares_fixed): not a disagreement
	disagree := 0
	for _, p := range probs {
		if !strings.HasPrefix(p, "share-unchanged/t=0") {
			disagree++
		}
	}
	c.res.Corr(disagree == 0)
	c.res.Case(fmt.Sprintf("%s/n=%d/t=%d/len=%d", label, n, t, len(ops)), fmt.Sprintf("%s/%d/%d/%v/%d", label, n, t, ops, seed), true)
	c.res.Sample(3, map[string]interface{}{"material": label, "n": n, "t": t, "history": hist})
	seen := map[string]bool{}
	for _, p := range probs {
		key := "C08/" + label + "/" + strings.SplitN(p, ":", 2)[0]
		if len(key) > 80 {
			key = key[:80]
		}
		if strings.HasPrefix(p, "share-unchanged/t=0") {
			key = "C08/share-unchanged/t=0"
		}
		if !seen[key] {
			seen[key] = true
			c.res.Violate("property", key, p, histReplay{Material: label, N: n, T: t, History: hist, Problems: probs})
		}
	}
}

func runC08(c *ctx) {
	if c.replay != "" && c.c08RetReplayRun() {
		return
	}
	if c.replay != "" && c.c08RevealReplayRun() {
		return
	}
	if c.replay != "" {
		var rp c08MixReplay
		if err := readJSON(c.replay, &rp); err == nil && rp.Protocol != "" {
			c.res.Rule = "replay of one mixed-epoch signing session"
			if strings.HasPrefix(rp.Protocol, "cmp") {
				usePrimeCache()
			}
			c.c08ReplayMixed(&rp)
			return
		}
	}
	r := c.res.Rng
	c.res.Rule = "histories keygen;(refresh|restore|derive|sign)* of length <=4 (thorough <=6) for FROST, FROST-Taproot (n<=4, all t), CMP n=3, Doerner; oracles by the reference after every step; " +
		"after the first and second refresh (thorough: every refresh) mixed-epoch signing sessions on every signing entry point (cmp sign / presign / presign-online, frost sign, taproot sign, doerner sign): " +
		"signer sets minimal prefix / minimal non-prefix / non-contiguous / everybody, one signer stale (each position) or all but one stale, material 1 and 2 refreshes old restored from bytes " +
		"(quick tier: the 3-signer CMP sets are sampled); non-trivial = history contains a refresh / a mixed session whose stale material differs from the current one; " +
		"distinct by (material, n, t, history, seed) resp. (entry point, n, t, signers, which signer, what is stale, epoch); " +
		"refresh given the in-memory objects the application keeps (c08_retained.go): old object unchanged vs its serialisation, signing with the current objects while the refresh is suspended " +
		"at every round boundary / with one party a round ahead, refresh stopped after every round; " +
		"refresh with a peer that reveals another value than it committed to (Doerner Receiver's refresh scalar, FROST / FROST-Taproot chain-key contribution; rewritten on the wire: random, the honest peer's own value, zero): the honest party must refuse"
	opsPool := []string{"refresh", "restore", "derive", "sign", "refresh"}
	genOps := func(maxLen int, withDerive bool) []string {
		n := 2 + r.Intn(maxLen-1)
		ops := []string{"refresh"}
		for len(ops) < n {
			o := opsPool[r.Intn(len(opsPool))]
			if o == "derive" && !withDerive {
				continue
			}
			ops = append(ops, o)
		}
		return ops
	}
	maxLen := 4
	reps := 1
	if c.thorough() {
		maxLen, reps = 6, 4
	}
	k := 0
	for n := 2; n <= 4; n++ {
		for t := 0; t < n; t++ {
			if !c.thorough() && n == 4 && t%2 == 0 {
				continue
			}
			for _, tap := range []bool{false, true} {
				for rep := 0; rep < reps; rep++ {
					k++
					ids := idsOf(idSets[[]string{"names", "short", "nonascii"}[k%3]][:n]...)
					label := "frost"
					if tap {
						label = "frost-taproot"
					}
					kg := runToEnd(specFrostKeygen(ids, t, tap, []byte(fmt.Sprintf("c08-%d", k))), c.res.Seed+int64(k), "fifo")
					_, raw, probs := viewsOfSim(kg)
					if len(probs) > 0 {
						c.res.Violate("property", "C08/"+label+"/keygen-incomplete", strings.Join(probs, "; "), nil)
						continue
					}
					c.c08History(label, n, t, raw, genOps(maxLen, true), c.res.Seed*131+int64(k))
				}
			}
		}
	}
	// fixed histories with two refreshes (a random history need not contain two), one of them for a group the quick tier skips above
	for _, nt := range [][2]int{{3, 1}, {4, 2}} {
		for _, tap := range []bool{false, true} {
			k++
			n, t := nt[0], nt[1]
			ids := idsOf(idSets[[]string{"names", "short", "nonascii"}[k%3]][:n]...)
			label := "frost"
			if tap {
				label = "frost-taproot"
			}
			kg := runToEnd(specFrostKeygen(ids, t, tap, []byte(fmt.Sprintf("c08-%d", k))), c.res.Seed+int64(k), "fifo")
			_, raw, probs := viewsOfSim(kg)
			if len(probs) > 0 {
				c.res.Violate("property", "C08/"+label+"/keygen-incomplete", strings.Join(probs, "; "), nil)
				continue
			}
			c.c08History(label, n, t, raw, []string{"refresh", "restore", "refresh", "sign"}, c.res.Seed*131+int64(k))
		}
	}
	// CMP
	usePrimeCache()
	{
		ids := idsOf("alice", "bob", "carl")
		kg := runToEnd(specCMPKeygen(ids, 1, []byte("c08cmp")), c.res.Seed, "fifo")
		_, raw, probs := viewsOfSim(kg)
		if len(probs) > 0 {
			c.res.Violate("property", "C08/cmp/keygen-incomplete", strings.Join(probs, "; "), nil)
		} else {
			// refresh sessions given the in-memory objects the application keeps (c08_retained.go); CMP on private objects restored from `raw`
			c.c08RetainedAll(raw, ids)
			ops := []string{"refresh", "sign", "refresh"}
			if c.thorough() {
				ops = []string{"refresh", "restore", "derive", "refresh", "sign"}
			}
			c.c08History("cmp", 3, 1, raw, ops, c.res.Seed)
		}
	}
	c.c08Doerner()
	// refreshes in which a peer reveals another value than it committed to (c08_reveal.go)
	c.c08RevealAll()
	c.c08FlushObserved()
	_ = taproot.PublicKey{}
	_ = bytes.Equal
}

func (c *ctx) c08Doerner() {
	ids := idsOf("recv", "send")
	g := curve.Secp256k1{}
	kg := twoPartySim(ids, nil, doerner.Keygen(g, true, ids[0], ids[1], nil), doerner.Keygen(g, false, ids[1], ids[0], nil), []byte("c08d"), true, false)
	kg.RunFIFO(10000)
	rr, _ := resultOf(kg.Nodes[ids[0]])
	rs, _ := resultOf(kg.Nodes[ids[1]])
	cr, ok1 := rr.(*doerner.ConfigReceiver)
	cs, ok2 := rs.(*doerner.ConfigSender)
	if !ok1 || !ok2 {
		c.res.Violate("property", "C08/doerner/keygen-incomplete", "doerner keygen did not complete", nil)
		return
	}
	var probs []string
	hist := []string{"keygen"}
	// every epoch's material as bytes, for the mixed-epoch signing sessions (c08_mixed.go)
	store := newC08Store("doerner", 1, c.res.Seed)
	store.IDs, store.N = ids, 2
	if err := store.push(map[party.ID]interface{}{ids[0]: cr, ids[1]: cs}); err != nil {
		probs = append(probs, "serialize/restore failed: "+err.Error())
	}
	steps := 2
	if c.thorough() {
		steps = 3
	}
	for step := 0; step < steps && len(probs) == 0; step++ {
		hist = append(hist, "refresh")
		rf := twoPartySim(ids, nil, doerner.RefreshReceiver(cr, ids[0], ids[1], nil), doerner.RefreshSender(cs, ids[1], ids[0], nil), []byte{byte(step)}, true, false)
		rf.RunFIFO(10000)
		r2, e1 := resultOf(rf.Nodes[ids[0]])
		s2, e2 := resultOf(rf.Nodes[ids[1]])
		cr2, ok1 := r2.(*doerner.ConfigReceiver)
		cs2, ok2 := s2.(*doerner.ConfigSender)
		if !ok1 || !ok2 {
			probs = append(probs, "refresh did not complete: "+e1+" "+e2)
			break
		}
		for _, p := range c.checkDoerner(cr2, cs2) {
			probs = append(probs, "after refresh: "+p)
		}
		if !cr2.Public.Equal(cr.Public) {
			probs = append(probs, "refresh changed the public key")
		}
		if scalarZ(cr2.SecretShare).Cmp(scalarZ(cr.SecretShare)) == 0 || scalarZ(cs2.SecretShare).Cmp(scalarZ(cs.SecretShare)) == 0 {
			probs = append(probs, "share-unchanged: a Doerner secret share is unchanged by refresh")
		}
		// mixed epochs do not combine to the key
		mix := new(big.Int).Add(scalarZ(cr2.SecretShare), scalarZ(cs.SecretShare))
		mix.Mod(mix, secpQ)
		gm, _ := c.m.Call("ref.base_mul", sx.Big(mix))
		pk, _ := c.ptSx(cr.Public)
		if gm.Equal(pk) {
			probs = append(probs, "mixed-epoch: new receiver share and old sender share combine to the key")
		}
		// stale signer: receiver or sender on material one or two refreshes old, restored from bytes
		if err := store.push(map[party.ID]interface{}{ids[0]: cr2, ids[1]: cs2}); err != nil {
			probs = append(probs, "serialize/restore failed: "+err.Error())
		} else if len(probs) == 0 {
			c.c08Control(store, "doerner-sign", ids)
			c.c08MixedEpoch(store, []string{"doerner-sign"}, map[string][][]party.ID{"doerner-sign": {ids}}, []int{1, 2}, 0)
		}
		cr, cs = cr2, cs2
	}
	// derive then sign with the refreshed + derived material
	if len(probs) == 0 {
		hist = append(hist, "derive", "sign")
		cr3, e1 := cr.DeriveBIP32(5)
		cs3, e2 := cs.DeriveBIP32(5)
		if e1 != nil || e2 != nil {
			probs = append(probs, fmt.Sprintf("derive failed: %v %v", e1, e2))
		} else {
			msg := bytes.Repeat([]byte{6}, 32)
			sg := twoPartySim(ids, nil, doerner.SignReceiver(cr3, ids[0], ids[1], msg, nil), doerner.SignSender(cs3, ids[1], ids[0], msg, nil), []byte("dsg"), true, true)
			sg.RunFIFO(10000)
			c.checkDoernerSign(SessionSpec{Name: "doerner-sign-derived", IDs: ids}, sg, cr3.Public, msg, 0)
		}
	}
	c.res.Corr(len(probs) == 0)
	c.res.Case("doerner/history", "doerner", true)
	if len(probs) > 0 {
		c.res.Violate("property", "C08/doerner/"+strings.SplitN(probs[0], ":", 2)[0], strings.Join(probs, "; "), histReplay{Material: "doerner", N: 2, T: 1, History: hist, Problems: probs})
	}
}
