package main

// C19 -- ONE hash.Hash object reused across WriteAny calls that FAIL.
//
// Contract of the code on the unchanged tree (pinned here): WriteAny(i1..in) absorbs the items in order and stops at the
// first item it cannot write, returning an error; the failing item itself leaves NO trace in the state -- not even when its
// WriteTo had already produced a part of its bytes before failing (cmp Config without RID: threshold and party ids are
// written before the missing RID is noticed; cmp Public / Config with an oversize Pedersen value: points and the Paillier
// modulus come first; a WriterTo of the caller failing on an io error).  Hence, whatever the history of the object,
//     state == BLAKE3 transcript of the successfully written items only   (model: c19.write on that subsequence),
// for Sum, Clone().Sum, Fork(x).Sum, Commit / Decommit afterwards.  Property-level consequences searched for every history:
//  * two histories that differ in (or by the presence of) an item written AFTER a failed write have different digests;
//  * bytes never move from a failed item into a neighbour: the history [.., failed(part..), X, ..] and the fresh sequence
//    [.., X', ..] with X' = X's kind over part||data(X) (and data(W)||part for the item W before it) have different digests;
//  * a commitment made on the reused object opens on a fresh object holding the successfully written items, and only there.
// Keys C19/hash-reuse/...

import (
	"bytes"
	"encoding/hex"
	"fmt"
	"io"
	"math/big"
	"math/rand"

	"github.com/taurusgroup/multi-party-sig/pkg/hash"

	"verifharness/sx"
)

// c19Flaky: a caller-defined hash.WriterToWithDomain that writes a part of itself and then fails (an io error half way).
// Description: (-2 <domain> <part>); the model has no value for it (never writable).
type c19Flaky struct {
	dom  string
	part []byte
}

func (f c19Flaky) WriteTo(w io.Writer) (int64, error) {
	n, _ := w.Write(f.part)
	return int64(n), io.ErrUnexpectedEOF
}
func (f c19Flaky) Domain() string { return f.dom }

func c19rFlaky(dom string, part []byte) sx.V { return sx.List(sx.Int(-2), sx.Str(dom), sx.Bytes(part)) }

func c19rIsGoOnly(v sx.V) bool { return v.L[0].AsInt() < 0 }

// c19rGo: the Go object of an item description (model value, typed nil of c19_new.go, flaky writer)
func c19rGo(v sx.V) interface{} {
	switch v.L[0].AsInt() {
	case -2:
		p := v.L[2].B
		if p == nil {
			p = []byte{}
		}
		return c19Flaky{string(v.L[1].B), p}
	case -1:
		w, _ := c19nGo(v)
		if w == nil {
			return nil
		}
		return w
	}
	return goValue(v)
}

// c19rPartial: what the item's WriteTo hands to a writer before it fails (nil: not a WriterTo, or it panics)
func c19rPartial(v sx.V) (part []byte) {
	defer func() {
		if recover() != nil {
			part = nil
		}
	}()
	w, ok := c19rGo(v).(io.WriterTo)
	if !ok || w == nil {
		return nil
	}
	var buf bytes.Buffer
	_, _ = w.WriteTo(&buf)
	return buf.Bytes()
}

// ---- failing items ----

// c19rConfigNoRID: a cmp Config (kind 24) with n parties and no RID
func c19rConfigNoRID(r *rand.Rand, n int) sx.V {
	ids := uniqueIDsX(r, n)
	ents := make([]sx.V, n)
	for i := range ents {
		ents[i] = sx.List(sx.Bytes(ids[i]), genPublicX(r, 0))
	}
	return sx.List(sx.Int(24), sx.List(sx.List(sx.Big(big.NewInt(int64(r.Intn(n)))), sx.List(), sx.Bytes(randBytes(r, 32)), sx.List(ents...))))
}

// c19rOversizePublic: a cmp Public (kind 23) whose Pedersen S or T does not fit the fixed width
func c19rOversizePublic(r *rand.Rand) sx.V {
	p := genPublicX(r, 0)
	i := 4 + r.Intn(2)
	z := new(big.Int).Add(p.L[i].Z, new(big.Int).Lsh(big.NewInt(1), uint(2048+r.Intn(9))))
	l := append([]sx.V{}, p.L...)
	l[i] = sx.Big(z)
	return sx.List(sx.Int(23), sx.List(sx.List(l...)))
}

// c19rConfigOversize: a cmp Config with RID whose LAST party's Pedersen value is oversize (everything before is written)
func c19rConfigOversize(r *rand.Rand, n int) sx.V {
	ids := uniqueIDsX(r, n)
	ents := make([]sx.V, n)
	for i := range ents {
		ents[i] = sx.List(sx.Bytes(ids[i]), genPublicX(r, 0))
	}
	ents[n-1] = sx.List(sx.Bytes(ids[n-1]), c19rOversizePublic(r).L[1].L[0])
	return sx.List(sx.Int(24), sx.List(sx.List(sx.Big(big.NewInt(0)), sx.List(sx.Bytes(randBytes(r, 32))), sx.Bytes(randBytes(r, 32)), sx.List(ents...))))
}

// c19rFailers: one of every class of failing item. class name -> item
func c19rFailers(r *rand.Rand) (names []string, items []sx.V) {
	add := func(n string, v sx.V) { names, items = append(names, n), append(items, v) }
	add("config-no-rid/1", c19rConfigNoRID(r, 1))
	add("config-no-rid/3", c19rConfigNoRID(r, 3))
	add("public-oversize-pedersen", c19rOversizePublic(r))
	add("config-oversize-pedersen", c19rConfigOversize(r, 2))
	add("flaky/id-domain", c19rFlaky("ID", advBytes(r)))
	add("flaky/own-domain", c19rFlaky("Flaky", append([]byte("alice-and-"), advBytes(r)...)))
	add("flaky/frame-bytes", c19rFlaky("ID", append(append([]byte(")(ID"), be8(3)...), randBytes(r, 3)...)))
	add("flaky/nothing-written", c19rFlaky("ID", nil))
	for i, u := range c19nUnwritables() {
		if c19nIsNil(u) {
			add("unwritable/"+string(u.L[1].B), u)
		} else {
			add(fmt.Sprintf("unwritable/kind%d/%d", u.L[0].AsInt(), i), u)
		}
	}
	// a type WriteAny has no case for
	add("unwritable/unknown-type", sx.List(sx.Int(-1), sx.Str("unknown-type")))
	return
}

// ---- histories ----

// a history: WriteAny calls (each a list of items) on one object
type c19rHistory [][]sx.V

func (h c19rHistory) sx() sx.V {
	l := make([]sx.V, len(h))
	for i, s := range h {
		l[i] = sx.List(s...)
	}
	return sx.List(l...)
}

func c19rParseHistory(s string) (c19rHistory, error) {
	v, err := sx.Parse(s)
	if err != nil {
		return nil, err
	}
	var h c19rHistory
	for _, st := range v.L {
		h = append(h, append([]sx.V{}, st.L...))
	}
	return h, nil
}

type c19rRun struct {
	h      *hash.Hash
	errs   []bool // per call: WriteAny returned an error
	pan    string
	digest []byte
}

type c19rUnknown struct{ x int }

// c19rExec runs the history on ONE hash object.
func c19rExec(hist c19rHistory) (out c19rRun) {
	defer func() {
		if p := recover(); p != nil {
			out.pan = fmt.Sprint(p)
		}
	}()
	out.h = hash.New()
	for _, call := range hist {
		args := make([]interface{}, len(call))
		for i, v := range call {
			if v.L[0].AsInt() == -1 && string(v.L[1].B) == "unknown-type" {
				args[i] = c19rUnknown{1}
				continue
			}
			args[i] = c19rGo(v)
		}
		out.errs = append(out.errs, out.h.WriteAny(args...) != nil)
	}
	out.digest = out.h.Sum()
	return
}

// c19rPlan: per the contract (judged by the model), what a history leaves in the transcript
type c19rPlan struct {
	accepted  []sx.V   // the successfully written items, in order
	at        [][2]int // accepted[k] is item at[k][1] of call at[k][0]
	afterFail []bool   // accepted[k] is written after some failed write
	errs      []bool   // per call: it fails
	fails     [][3]int // the failing item of every failing call: call, item, number of items accepted before it
}

func (c *ctx) c19rExpected(hist c19rHistory) (pl c19rPlan, err error) {
	failed := false
	for ci, call := range hist {
		bad := false
		for ii, v := range call {
			ok := false
			if !c19rIsGoOnly(v) {
				wr, _, e := c.c19nWritable([]sx.V{v})
				if e != nil {
					return pl, e
				}
				ok = len(wr) == 1
			}
			if !ok {
				bad = true
				pl.fails = append(pl.fails, [3]int{ci, ii, len(pl.accepted)})
				break
			}
			pl.accepted, pl.at, pl.afterFail = append(pl.accepted, v), append(pl.at, [2]int{ci, ii}), append(pl.afterFail, failed)
		}
		if bad {
			failed = true
		}
		pl.errs = append(pl.errs, bad)
	}
	return
}

type c19rReplay struct {
	What     string            `json:"what"`
	Class    string            `json:"class,omitempty"`
	History  string            `json:"history"`             // the WriteAny calls on ONE hash.Hash: ((item ...) (item ...) ...); (-2 dom part) = writer failing after `part`; (-1 name) = typed nil / unknown type
	HistoryB string            `json:"history_b,omitempty"` // the other history (every call on ONE fresh object)
	Then     string            `json:"then,omitempty"`      // sum | clone | fork | commit
	GoA      string            `json:"go_digest_a,omitempty"`
	GoB      string            `json:"go_digest_b,omitempty"`
	Want     string            `json:"model_digest,omitempty"`
	Accepted string            `json:"successfully_written,omitempty"`
	Hints    map[string][2]int `json:"announced_lengths,omitempty"`
}

func c19rHints(hs ...c19rHistory) map[string][2]int {
	var seqs [][]sx.V
	for _, h := range hs {
		for _, call := range h {
			var l []sx.V
			for _, v := range call {
				if !c19rIsGoOnly(v) {
					l = append(l, v)
				}
			}
			seqs = append(seqs, l)
		}
	}
	return hintsFor(seqs...)
}

// byte-string kinds: the item's data is the byte string itself. glued(v, pre, post) = the same kind over pre||data||post
func c19rGlue(v sx.V, pre, post []byte) *sx.V {
	cat := func(b []byte) sx.V { return sx.Bytes(catB(pre, b, post)) }
	var out sx.V
	switch v.L[0].AsInt() {
	case 7:
		out = sx.List(v.L[0], cat(v.L[1].B))
	case 0, 9, 10, 11, 14, 22:
		if len(v.L[1].L) == 0 {
			return nil
		}
		out = sx.List(v.L[0], sx.List(cat(v.L[1].L[0].B)))
	case 15:
		if len(v.L[2].L) == 0 {
			return nil
		}
		out = sx.List(v.L[0], v.L[1], sx.List(cat(v.L[2].L[0].B)))
	default:
		return nil
	}
	return &out
}

// c19rCheck: one history -- contract against the model, then the property-level searches.
func (c *ctx) c19rCheck(r *rand.Rand, hist c19rHistory, class string) {
	hs := hist.sx().String()
	pl, err := c.c19rExpected(hist)
	accepted, wantErrs := pl.accepted, pl.errs
	if err != nil {
		c.res.Violate("correspondence", "C19/model-error", err.Error(), c19rReplay{What: "model error", History: hs})
		return
	}
	ms, mok, err := c.modelStream(accepted)
	if err != nil || !mok {
		c.res.Violate("correspondence", "C19/model-error", fmt.Sprint("successfully written items not writable as a whole: ", err), c19rReplay{What: "model error", History: hs})
		return
	}
	want := blake64(ms)
	run := c19rExec(hist)
	nFail := 0
	for _, e := range wantErrs {
		if e {
			nFail++
		}
	}
	c.res.Case("hash-reuse/"+class, "reuse|"+hs, nFail > 0 && len(accepted) > 0)
	rp := func(what, then string) c19rReplay {
		return c19rReplay{What: what, Class: class, History: hs, Then: then, GoA: hex.EncodeToString(run.digest), Want: hex.EncodeToString(want), Accepted: seqString(accepted), Hints: c19rHints(hist)}
	}
	if run.pan != "" {
		c.res.Corr(false)
		c.res.Violate("correspondence", "C19/hash-reuse/panic", "WriteAny panics on an item the model calls unwritable (or writable): "+run.pan, rp("panic", "sum"))
		return
	}
	sameErrs := len(run.errs) == len(wantErrs)
	for i := 0; sameErrs && i < len(wantErrs); i++ {
		sameErrs = run.errs[i] == wantErrs[i]
	}
	c.res.Corr(sameErrs)
	if !sameErrs {
		c.res.Violate("correspondence", "C19/hash-reuse/error-status", fmt.Sprintf("WriteAny error status per call %v, model %v", run.errs, wantErrs), rp("error status", "sum"))
	}
	contract := bytes.Equal(run.digest, want)
	c.res.Corr(contract)
	if !contract {
		c.res.Violate("correspondence", "C19/hash-reuse/contract",
			fmt.Sprintf("the digest of ONE hash object after %d failed and %d successful item writes is not the digest of the successfully written items", nFail, len(accepted)), rp("contract", "sum"))
	}
	// the same transcript on a fresh object that never saw a failing item (library object; the model digest is the judge)
	fresh := func(items []sx.V) (d []byte, h *hash.Hash, ok bool) {
		defer func() {
			if recover() != nil {
				ok = false
			}
		}()
		h = hash.New()
		for _, v := range items {
			if h.WriteAny(goValue(v)) != nil {
				return nil, nil, false
			}
		}
		return h.Sum(), h, true
	}
	if !contract {
		// property: the digest of an item sequence is a function of the sequence, not of the object's past failures
		if fd, _, ok := fresh(accepted); ok && bytes.Equal(fd, want) {
			r2 := rp("the same item sequence has two digests", "sum")
			r2.HistoryB, r2.GoB = c19rHistory{accepted}.sx().String(), hex.EncodeToString(fd)
			if len(accepted) == 0 {
				r2.HistoryB = "()"
			}
			c.res.Violate("property", "C19/hash-reuse/"+class+"/digest-depends-on-failed-write",
				"the items successfully written to a hash object that refused another item before have a different digest than the same items written to a fresh object: two honest parties with equal transcripts compute different challenges / commitments", r2)
		}
	}
	// afterwards: Clone, Fork, a further write, Commit / Decommit on the reused object
	z := c19nGenWriter(r, true)
	for z.L[0].AsInt() >= 23 {
		z = c19nGenWriter(r, true)
	}
	ms2, _, _ := c.modelStream(append(append([]sx.V{}, accepted...), z))
	want2 := blake64(ms2)
	func() {
		defer func() {
			if p := recover(); p != nil {
				c.res.Corr(false)
				c.res.Violate("correspondence", "C19/hash-reuse/panic", fmt.Sprint("Clone / Fork after failed writes panics: ", p), rp("panic", "clone"))
			}
		}()
		cl := run.h.Clone().Sum()
		fk := run.h.Fork(goValue(z)).Sum()
		okc, okf := bytes.Equal(cl, want), bytes.Equal(fk, want2)
		c.res.Corr(okc)
		c.res.Corr(okf)
		if !okc {
			c.res.Violate("correspondence", "C19/hash-reuse/contract/clone", "Clone().Sum() after failed writes is not the digest of the successfully written items", rp("contract", "clone"))
		}
		if !okf {
			x := rp("contract", "fork")
			x.HistoryB = seqString([]sx.V{z})
			c.res.Violate("correspondence", "C19/hash-reuse/contract/fork", "Fork(x).Sum() after failed writes is not the digest of the successfully written items followed by x", x)
		}
		// commitment on the reused object: model value, and it opens on the fresh transcript
		cm, d, cerr := run.h.Commit(goValue(z))
		if cerr != nil {
			c.res.Corr(false)
			c.res.Violate("correspondence", "C19/hash-reuse/contract/commit", "Commit of a writable item on the reused object fails: "+cerr.Error(), rp("contract", "commit"))
			return
		}
		ms3, _, _ := c.modelStream(append(append([]sx.V{}, accepted...), z, sx.List(sx.Int(11), sx.List(sx.Bytes(d)))))
		okm := bytes.Equal(cm, blake64(ms3))
		c.res.Corr(okm)
		if !okm {
			x := rp("contract", "commit")
			x.HistoryB = seqString([]sx.V{z})
			c.res.Violate("correspondence", "C19/hash-reuse/contract/commit", "the commitment made on the reused object is not BLAKE3(transcript of the successfully written items, value, decommitment)", x)
		}
		if _, fh, ok := fresh(accepted); ok {
			opens := fh.Decommit(cm, d, goValue(z))
			c.res.Corr(opens == okm)
			if !opens && !okm {
				x := rp("commitment does not open on the equal transcript", "commit")
				x.HistoryB = seqString([]sx.V{z})
				c.res.Violate("property", "C19/hash-reuse/"+class+"/commitment-does-not-open",
					"a commitment made on a hash object that refused an item earlier does not open on a fresh object holding the same successfully written items", x)
			} else if opens != okm {
				c.res.Violate("correspondence", "C19/hash-reuse/contract/decommit", fmt.Sprintf("Decommit on a fresh object: %v, the commitment equals the model's: %v", opens, okm), rp("contract", "commit"))
			}
		}
	}()
	// property: an item written after a failed write still counts (perturbed / dropped)
	for k, v := range accepted {
		if !pl.afterFail[k] {
			continue
		}
		ci, ii := pl.at[k][0], pl.at[k][1]
		var alts []c19rHistory
		var shapes []string
		if p := perturbValue(v); p != nil {
			if _, gok := goDigestSafe([]sx.V{*p}); gok {
				alts, shapes = append(alts, c19rReplaceItem(hist, ci, ii, p)), append(shapes, "perturb-after-failed-write")
			}
		}
		alts, shapes = append(alts, c19rReplaceItem(hist, ci, ii, nil)), append(shapes, "drop-after-failed-write")
		for j, alt := range alts {
			ra := c19rExec(alt)
			c.res.Case("hash-reuse-related/"+shapes[j], "reuse|"+hs+"|"+alt.sx().String(), true)
			if ra.pan == "" && bytes.Equal(ra.digest, run.digest) {
				x := rp("collision", "sum")
				x.HistoryB, x.GoB, x.Hints = alt.sx().String(), hex.EncodeToString(ra.digest), c19rHints(hist, alt)
				c.res.Violate("property", "C19/hash-reuse/"+class+"/collision/"+shapes[j],
					"two histories of one hash object which differ in an item written after a failed write give the same digest", x)
			}
		}
	}
	// property: the bytes a failing item produced before failing do not end up in a neighbouring item
	for _, f := range pl.fails {
		part := c19rPartial(hist[f[0]][f[1]])
		if len(part) == 0 {
			continue
		}
		type nb struct {
			idx       int
			pre, post []byte
			shape     string
		}
		var nbs []nb
		if f[2] < len(accepted) {
			nbs = append(nbs, nb{f[2], part, nil, "failed-item-bytes-in-next-item"})
		}
		if f[2] > 0 {
			nbs = append(nbs, nb{f[2] - 1, nil, part, "failed-item-bytes-in-previous-item"})
		}
		for _, n := range nbs {
			g := c19rGlue(accepted[n.idx], n.pre, n.post)
			if g == nil {
				continue
			}
			other := append([]sx.V{}, accepted...)
			other[n.idx] = *g
			od, _, ok := fresh(other)
			c.res.Case("hash-reuse-related/"+n.shape, "reuse|"+hs+"|"+seqString(other), true)
			if ok && bytes.Equal(od, run.digest) {
				x := rp("collision", "sum")
				x.HistoryB, x.GoB = c19rHistory{other}.sx().String(), hex.EncodeToString(od)
				c.res.Violate("property", "C19/hash-reuse/"+class+"/collision/"+n.shape,
					"a history with a failed write and a different item sequence (the failed item's partial output moved into the neighbouring item) give the same digest", x)
			}
		}
	}
}

// c19rReplaceItem: hist with item ii of call ci replaced (p == nil: removed; an emptied call is removed)
func c19rReplaceItem(hist c19rHistory, ci, ii int, p *sx.V) c19rHistory {
	var out c19rHistory
	for i, call := range hist {
		if i != ci {
			out = append(out, call)
			continue
		}
		n := append([]sx.V{}, call[:ii]...)
		if p != nil {
			n = append(n, *p)
		}
		n = append(n, call[ii+1:]...)
		if len(n) > 0 {
			out = append(out, n)
		}
	}
	return out
}

// c19rByteItem: a writable item of a byte-string kind (where glued neighbours can be formed)
func c19rByteItem(r *rand.Rand) sx.V {
	for {
		v := genHval(r, []int{7, 7, 9, 10, 11, 14, 15, 22, 0}[r.Intn(9)])
		if _, ok := goDigestSafe([]sx.V{v}); ok {
			return v
		}
	}
}

func (c *ctx) c19rReuseAll(r *rand.Rand) {
	names, fails := c19rFailers(r)
	small := func() sx.V {
		for {
			if v := c19nGenWriter(r, true); v.L[0].AsInt() < 23 {
				return v
			}
		}
	}
	// every class of failing item: alone in its call between successful writes (byte-string and arbitrary neighbours), first, last,
	// twice in a row, and in the middle of a multi-item call
	for i, f := range fails {
		cl := names[i]
		a, b, x, y := c19rByteItem(r), c19rByteItem(r), small(), small()
		c.c19rCheck(r, c19rHistory{{a}, {f}, {b}}, cl)
		c.c19rCheck(r, c19rHistory{{f}, {sx.List(sx.Int(7), sx.Bytes([]byte("bob")))}}, cl)
		c.c19rCheck(r, c19rHistory{{x}, {f}, {y}, {f}}, cl)
		if c.thorough() || i%3 == int(c.res.Seed%3) {
			c.c19rCheck(r, c19rHistory{{f}, {f}, {a}, {x}}, cl)
			c.c19rCheck(r, c19rHistory{{x, a, f, b}, {y}}, cl) // b is not written: the call stops at f
			c.c19rCheck(r, c19rHistory{{f}}, cl)
		}
	}
	// random histories: several failing items of different classes interleaved with successful writes
	nMix := 25
	if c.thorough() {
		nMix = 1200
	}
	for i := 0; i < nMix; i++ {
		var h c19rHistory
		for k, n := 0, 1+r.Intn(6); k < n; k++ {
			var call []sx.V
			for j, m := 0, 1+r.Intn(2)*r.Intn(3); j < m; j++ {
				switch r.Intn(5) {
				case 0, 1:
					call = append(call, fails[r.Intn(len(fails))])
				case 2:
					call = append(call, c19rByteItem(r))
				default:
					call = append(call, small())
				}
			}
			if len(call) > 0 {
				h = append(h, call)
			}
		}
		c.c19rCheck(r, h, "mixed")
	}
}

// c19rReplayRun: a replay file of this part (history / history_b)
func (c *ctx) c19rReplayRun() bool {
	var rp c19rReplay
	if err := readJSON(c.replay, &rp); err != nil || rp.History == "" {
		return false
	}
	for k, v := range rp.Hints {
		c19Hints[k] = v
	}
	h, err := c19rParseHistory(rp.History)
	if err != nil {
		c.res.Note("bad replay: %v", err)
		return true
	}
	if rp.HistoryB != "" && rp.What == "collision" {
		hb, err := c19rParseHistory(rp.HistoryB)
		if err == nil {
			a, b := c19rExec(h), c19rExec(hb)
			fmt.Printf("replay: history   digest %x\nreplay: history_b digest %x\n", a.digest, b.digest)
			if a.pan == "" && b.pan == "" && bytes.Equal(a.digest, b.digest) && rp.History != rp.HistoryB {
				c.res.Violate("property", "C19/hash-reuse/"+rp.Class+"/collision/replayed", "two different histories of hash objects give the same digest", rp)
			}
		}
	}
	cl := rp.Class
	if cl == "" {
		cl = "replay"
	}
	c.c19rCheck(c.res.Rng, h, cl)
	return true
}
