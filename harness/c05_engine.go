package main

// c05_engine.go -- deterministic session engine used by the C05 harness.
// A "run" has a set of LIVE parties (real handlers built from the library's StartFuncs, each with its own
// deterministic crypto/rand stream) and optionally RECORDED envelopes of the non-live parties taken from the
// reference run of the same session.  One goroutine decides which envelope is delivered next; every API call
// into a handler runs under recover with the outgoing channel drained concurrently and a hang watchdog.

import (
	crand "crypto/rand"
	"crypto/sha256"
	"encoding/binary"
	"fmt"
	"os"
	"runtime"
	"runtime/debug"
	"sort"
	"strings"
	"sync"
	"syscall"
	"time"

	"github.com/cronokirby/saferith"
	"github.com/taurusgroup/multi-party-sig/pkg/math/sample"
	"github.com/taurusgroup/multi-party-sig/pkg/party"
	"github.com/taurusgroup/multi-party-sig/pkg/protocol"
	"github.com/taurusgroup/multi-party-sig/pkg/verifhook"

	"verifharness/sx"
)

// ---------------------------------------------------------------------------------------------
// deterministic randomness: one SHA-256 counter stream per (run label, party)

type c05Stream struct {
	key [32]byte
	ctr uint64
	buf []byte
}

func (s *c05Stream) read(p []byte) {
	for len(p) > 0 {
		if len(s.buf) == 0 {
			var in [40]byte
			copy(in[:], s.key[:])
			binary.BigEndian.PutUint64(in[32:], s.ctr)
			s.ctr++
			d := sha256.Sum256(in[:])
			s.buf = d[:]
		}
		n := copy(p, s.buf)
		p, s.buf = p[n:], s.buf[n:]
	}
}

type c05Rand struct {
	mu      sync.Mutex
	label   string
	cur     string
	streams map[string]*c05Stream
	primeN  map[string]int
}

func (d *c05Rand) Read(p []byte) (int, error) {
	d.mu.Lock()
	defer d.mu.Unlock()
	st := d.streams[d.cur]
	if st == nil {
		st = &c05Stream{key: sha256.Sum256([]byte("c05/" + d.label + "/" + d.cur))}
		d.streams[d.cur] = st
	}
	st.read(p)
	return len(p), nil
}

func (d *c05Rand) reset(label string) {
	d.mu.Lock()
	d.label, d.cur, d.streams, d.primeN = label, "", map[string]*c05Stream{}, map[string]int{}
	d.mu.Unlock()
}

type c05RandState struct {
	label, cur string
	streams    map[string]c05Stream
	primeN     map[string]int
}

// save / load: the randomness state of the run in progress (a nested run resets it)
func (d *c05Rand) save() c05RandState {
	d.mu.Lock()
	defer d.mu.Unlock()
	st := c05RandState{label: d.label, cur: d.cur, streams: map[string]c05Stream{}, primeN: map[string]int{}}
	for k, v := range d.streams {
		c := *v
		c.buf = append([]byte{}, v.buf...)
		st.streams[k] = c
	}
	for k, v := range d.primeN {
		st.primeN[k] = v
	}
	return st
}

func (d *c05Rand) load(st c05RandState) {
	d.mu.Lock()
	defer d.mu.Unlock()
	d.label, d.cur, d.streams, d.primeN = st.label, st.cur, map[string]*c05Stream{}, map[string]int{}
	for k, v := range st.streams {
		c := v
		c.buf = append([]byte{}, v.buf...)
		d.streams[k] = &c
	}
	for k, v := range st.primeN {
		d.primeN[k] = v
	}
}

func (d *c05Rand) setParty(p string) {
	d.mu.Lock()
	d.cur = p
	d.mu.Unlock()
}

var c05PrimeSlot = map[string]int{"alice": 0, "bob": 1, "carl": 2, "dave": 3}

// c05InstallRand replaces crypto/rand.Reader (the library samples everything from it) and makes
// sample.Paillier return cached safe primes chosen by (current party, how many it already asked for).
func c05InstallRand() *c05Rand {
	d := &c05Rand{}
	d.reset("init")
	crand.Reader = d
	loadPrimes()
	sample.VerifPrimeSource = func() (*saferith.Nat, *saferith.Nat, bool) {
		d.mu.Lock()
		name := d.cur
		k := d.primeN[name]
		d.primeN[name] = k + 1
		d.mu.Unlock()
		primeMu.Lock()
		defer primeMu.Unlock()
		np := len(primeList) / 2
		if np == 0 {
			return nil, nil, false
		}
		i := (c05PrimeSlot[name] + 4*k) % np
		p, q := primeList[2*i], primeList[2*i+1]
		return new(saferith.Nat).SetBig(p, 1024), new(saferith.Nat).SetBig(q, 1024), true
	}
	return d
}

// ---------------------------------------------------------------------------------------------
// transparent round.Session proxies: record which round sessions a party went through (content type names,
// and the session objects themselves for the "clone" sweep)

type c05Recorder struct {
	rounds map[int]verifhook.RoundSession // raw sessions by number
	types  map[string]string              // "r<k>/bc" | "r<k>/p2p" -> Go type of the content
}

func newC05Recorder() *c05Recorder {
	return &c05Recorder{rounds: map[int]verifhook.RoundSession{}, types: map[string]string{}}
}

type c05Proxy struct {
	verifhook.RoundSession
	rec *c05Recorder
}

type c05ProxyB struct{ c05Proxy }

func (p *c05Proxy) Finalize(out chan<- *verifhook.RoundMessage) (verifhook.RoundSession, error) {
	r, err := p.RoundSession.Finalize(out)
	if r == nil {
		return nil, err
	}
	if r == p.RoundSession {
		return p, err
	}
	return p.rec.wrap(r), err
}

func (p *c05ProxyB) StoreBroadcastMessage(m verifhook.RoundMessage) error {
	return p.RoundSession.(verifhook.BroadcastRound).StoreBroadcastMessage(m)
}

func (p *c05ProxyB) BroadcastContent() verifhook.BroadcastContent {
	return p.RoundSession.(verifhook.BroadcastRound).BroadcastContent()
}

func c05TypeName(v interface{}) string {
	s := fmt.Sprintf("%T", v)
	s = strings.TrimPrefix(s, "*")
	if i := strings.LastIndex(s, "."); i >= 0 {
		s = s[i+1:]
	}
	return s
}

func (rec *c05Recorder) wrap(r verifhook.RoundSession) verifhook.RoundSession {
	switch r.(type) {
	case *verifhook.RoundAbort, *verifhook.RoundOutput:
		return r
	}
	k := int(r.Number())
	rec.rounds[k] = r
	func() {
		defer func() { recover() }()
		if c := r.MessageContent(); c != nil {
			rec.types[fmt.Sprintf("r%d/p2p", k)] = c05TypeName(c)
		}
		if b, ok := r.(verifhook.BroadcastRound); ok {
			if c := b.BroadcastContent(); c != nil {
				rec.types[fmt.Sprintf("r%d/bc", k)] = c05TypeName(c)
			}
		}
	}()
	if _, ok := r.(verifhook.BroadcastRound); ok {
		return &c05ProxyB{c05Proxy{r, rec}}
	}
	return &c05Proxy{r, rec}
}

func (rec *c05Recorder) wrapStart(f protocol.StartFunc) protocol.StartFunc {
	return func(sid []byte) (verifhook.RoundSession, error) {
		r, err := f(sid)
		if err != nil || r == nil {
			return r, err
		}
		return rec.wrap(r), nil
	}
}

// ---------------------------------------------------------------------------------------------

type c05Spec struct {
	Name     string
	IDs      []party.ID
	SID      []byte
	TwoParty bool
	Leader   map[party.ID]bool
	Heavy    bool
	Victim   party.ID
	Senders  []party.ID // whose messages to the victim are mutated
	// mk builds the StartFuncs (may run prerequisite sessions through env)
	mk func(env *c05Env) (map[party.ID]protocol.StartFunc, error)
}

type c05Party struct {
	ID       party.ID
	H        protocol.Handler
	MH       *protocol.MultiHandler
	TH       *protocol.TwoPartyHandler
	closed   bool
	Out      []*protocol.Message
	StartErr string
	rec      *c05Recorder
	// model history (MultiHandler only)
	events []sx.V
	obs    []sx.V
	lastO  c05Obs
}

type c05Envl struct {
	Key  string
	From party.ID
	To   party.ID
	Msg  *protocol.Message
}

type c05Bad struct {
	Party string
	Kind  string // PANIC | HANG
	Text  string
	Site  string
	Stack string
	AtKey string
	Call  string
}

type c05Engine struct {
	spec       *c05Spec
	env        *c05Env
	live       map[party.ID]*c05Party
	order      []party.ID
	pool       []*c05Envl
	keyCount   map[string]int
	recorded   map[string]*c05Envl
	used       map[string]bool
	timeout    time.Duration
	bad        *c05Bad
	Order      []string            // keys in delivery order
	All        map[string]*c05Envl // every envelope ever emitted by a live party
	AllKeys    []string
	intern     map[string]int64
	record     bool
	deliveries int
}

func c05EnvKey(from, to party.ID, m *protocol.Message) string {
	k := "p2p"
	if m.Broadcast {
		k = "bc"
	}
	return fmt.Sprintf("%s>%s/r%d/%s", from, to, m.RoundNumber, k)
}

func c05KeyTo(key string) party.ID {
	a := strings.SplitN(key, "/", 2)[0]
	p := strings.SplitN(a, ">", 2)
	if len(p) < 2 {
		return ""
	}
	return party.ID(p[1])
}

func c05KeyFrom(key string) party.ID {
	return party.ID(strings.SplitN(key, ">", 2)[0])
}

// newEngine builds the live parties (in sorted id order).  label selects the randomness of the run:
// all runs of the same spec use the same label, so that every live party behaves exactly as in the reference run
// as long as it receives the same messages.
func newC05Engine(env *c05Env, spec *c05Spec, live []party.ID, recorded map[string]*c05Envl, withProxy, record bool) (*c05Engine, error) {
	env.rnd.reset("run/" + spec.Name)
	starts, err := spec.mk(env)
	if err != nil {
		return nil, err
	}
	env.rnd.reset("run/" + spec.Name)
	e := &c05Engine{spec: spec, env: env, live: map[party.ID]*c05Party{}, keyCount: map[string]int{}, recorded: recorded,
		used: map[string]bool{}, timeout: 20 * time.Second, All: map[string]*c05Envl{}, intern: map[string]int64{}, record: record}
	if t := os.Getenv("C05_TIMEOUT"); t != "" {
		// development aid: measure how long a "hung" call really takes
		if d, err := time.ParseDuration(t); err == nil {
			e.timeout = d
		}
	}
	ids := append([]party.ID{}, live...)
	sort.Slice(ids, func(i, j int) bool { return ids[i] < ids[j] })
	e.order = ids
	type made struct {
		p    *c05Party
		msgs []*protocol.Message
	}
	var ms []made
	for _, id := range ids {
		p := &c05Party{ID: id}
		e.live[id] = p
		start := starts[id]
		if withProxy {
			p.rec = newC05Recorder()
			start = p.rec.wrapStart(start)
		}
		env.rnd.setParty(string(id))
		var pan string
		func() {
			defer func() {
				if r := recover(); r != nil {
					pan = fmt.Sprint(r)
				}
			}()
			if spec.TwoParty {
				h, err := protocol.NewTwoPartyHandler(start, spec.SID, spec.Leader[id])
				if err != nil {
					p.StartErr = err.Error()
					return
				}
				p.H, p.TH = h, h
			} else {
				h, err := protocol.NewMultiHandler(start, spec.SID)
				if err != nil {
					p.StartErr = err.Error()
					return
				}
				p.H, p.MH = h, h
			}
		}()
		if pan != "" {
			p.StartErr = "PANIC: " + pan
		}
		if p.H == nil {
			return nil, fmt.Errorf("%s: party %s did not start: %s", spec.Name, id, p.StartErr)
		}
		msgs := e.collect(p)
		o := e.observe(p, msgs, "", 0, false)
		p.obs = append(p.obs, c05ObsSx(o))
		e.noteDrain(p, o, len(msgs))
		ms = append(ms, made{p, msgs})
	}
	for _, m := range ms {
		e.enqueue(m.p, m.msgs)
	}
	return e, nil
}

func (e *c05Engine) collect(p *c05Party) []*protocol.Message {
	var out []*protocol.Message
	if p.closed {
		return nil
	}
	ch := p.H.Listen()
	for {
		select {
		case m, ok := <-ch:
			if !ok {
				p.closed = true
				return out
			}
			out = append(out, m)
		default:
			return out
		}
	}
}

// c05PanicSite names where a panic came from: the innermost frame outside the Go runtime, and (if that is not
// library code) the innermost frame of the library under test that led there.
func c05PanicSite(stack string) string {
	lines := strings.Split(stack, "\n")
	start := 0
	for i, l := range lines {
		if strings.HasPrefix(l, "panic(") || strings.HasPrefix(l, "runtime.gopanic") || strings.HasPrefix(l, "runtime.panic") ||
			strings.HasPrefix(l, "runtime.goPanic") || strings.HasPrefix(l, "runtime.sigpanic") {
			start = i + 2
		}
	}
	frame := func(i int) (string, string) {
		fn := lines[i]
		loc := strings.TrimSpace(lines[i+1])
		if j := strings.Index(loc, " +0x"); j >= 0 {
			loc = loc[:j]
		}
		pres := []string{"/repo/", "/pkg/mod/", "/go-1.23/src/", "/go/src/"}
		if alt := os.Getenv("VERIF_REPO"); alt != "" && alt != "/repo" {
			pres = append([]string{strings.TrimSuffix(alt, "/") + "/"}, pres...)
		}
		for _, pre := range pres {
			if k := strings.Index(loc, pre); k >= 0 {
				loc = loc[k+len(pre):]
			}
		}
		if q := strings.LastIndex(fn, "("); q > 0 && !strings.HasPrefix(fn[q:], "(*") {
			fn = fn[:q]
		}
		if k := strings.LastIndex(fn, "/"); k >= 0 {
			fn = fn[k+1:]
		}
		return loc + " " + fn, lines[i]
	}
	inner, lib := "", ""
	for i := start; i+1 < len(lines); i += 2 {
		raw := lines[i]
		if strings.HasPrefix(raw, "runtime.") || strings.HasPrefix(raw, "runtime/debug.") || strings.HasPrefix(raw, "main.") ||
			strings.HasPrefix(raw, "created by") || strings.HasPrefix(raw, "goroutine ") || raw == "" {
			continue
		}
		f, _ := frame(i)
		if inner == "" {
			inner = f
		}
		if strings.HasPrefix(raw, "github.com/taurusgroup/multi-party-sig/") {
			lib = f
			break
		}
	}
	switch {
	case inner == "":
		return "?"
	case lib == "" || lib == inner:
		return inner
	}
	return inner + " <- " + lib
}

// c05HungStack returns the stack of the goroutine that is still inside the handler call
func c05HungStack() string {
	buf := make([]byte, 1<<20)
	buf = buf[:runtime.Stack(buf, true)]
	for _, blk := range strings.Split(string(buf), "\n\n") {
		if strings.Contains(blk, "Handler).Accept") || strings.Contains(blk, "Handler).CanAccept") || strings.Contains(blk, "c05SweepOne") || strings.Contains(blk, "main.c05RunDirect.func") || strings.Contains(blk, "main.c05RunZK.func") {
			if !strings.Contains(blk, "c05HungStack") {
				if k := strings.Index(blk, "\n"); k >= 0 {
					return blk[k+1:]
				}
			}
		}
	}
	return ""
}

// call runs f (an API call on p's handler) in a goroutine while draining the outgoing channel.
func (e *c05Engine) call(p *c05Party, f func()) (msgs []*protocol.Message, pan, stack string, hung bool) {
	type res struct{ pan, stack string }
	done := make(chan res, 1)
	go func() {
		defer func() {
			if r := recover(); r != nil {
				done <- res{fmt.Sprint(r), string(debug.Stack())}
			} else {
				done <- res{}
			}
		}()
		f()
	}()
	var ch <-chan *protocol.Message
	if !p.closed {
		ch = p.H.Listen()
	}
	wd := newC05Watchdog(e.timeout)
	tick := time.NewTicker(200 * time.Millisecond)
	defer tick.Stop()
	for {
		select {
		case m, ok := <-ch:
			if !ok {
				p.closed = true
				ch = nil
				continue
			}
			msgs = append(msgs, m)
		case r := <-done:
			msgs = append(msgs, e.collect(p)...)
			return msgs, r.pan, r.stack, false
		case <-tick.C:
			if wd.expired() {
				return msgs, "", c05HungStack(), true
			}
		}
	}
}

// c05Watchdog decides that a call hangs.  The limit is meant as 20 s of WORK: the children of one run (and whatever else runs on
// the machine) compete for the CPUs, so wall time alone would misjudge an honest but expensive step of a starved process.
// A call hangs when (a) this process has burnt `limit` of CPU time since the call began, or (b) after 1.5 x limit of wall time the
// goroutine executing the call is parked in a blocking operation (channel, lock, select, sleep) rather than running or runnable.
// After 60 x limit of wall time the call is given up in any case (the harness must terminate).
type c05Watchdog struct {
	limit time.Duration
	t0    time.Time
	cpu0  time.Duration
}

func c05CPU() time.Duration {
	var ru syscall.Rusage
	if syscall.Getrusage(syscall.RUSAGE_SELF, &ru) != nil {
		return 0
	}
	return time.Duration(ru.Utime.Nano() + ru.Stime.Nano())
}

func newC05Watchdog(limit time.Duration) *c05Watchdog {
	return &c05Watchdog{limit: limit, t0: time.Now(), cpu0: c05CPU()}
}

func (w *c05Watchdog) expired() bool {
	wall := time.Since(w.t0)
	if wall < w.limit {
		return false
	}
	if c05CPU()-w.cpu0 >= w.limit {
		return true
	}
	if wall >= w.limit*3/2 && c05CallBlocked() {
		return true
	}
	return wall >= 60*w.limit
}

// c05CallBlocked: is the goroutine that executes the handler / decoder call parked in a blocking operation?
func c05CallBlocked() bool {
	buf := make([]byte, 1<<20)
	buf = buf[:runtime.Stack(buf, true)]
	for _, blk := range strings.Split(string(buf), "\n\n") {
		if !(strings.Contains(blk, "Handler).Accept") || strings.Contains(blk, "Handler).CanAccept") || strings.Contains(blk, "c05SweepOne") ||
			strings.Contains(blk, "main.c05RunDirect.func") || strings.Contains(blk, "main.c05RunZK.func")) || strings.Contains(blk, "c05CallBlocked") {
			continue
		}
		head := blk
		if k := strings.Index(head, "\n"); k >= 0 {
			head = head[:k]
		}
		for _, st := range []string{"chan send", "chan receive", "select", "semacquire", "sync.Mutex", "sync.RWMutex", "sync.Cond", "sync.WaitGroup", "sleep", "IO wait"} {
			if strings.Contains(head, "["+st) {
				return true
			}
		}
		return false
	}
	return false
}

func (e *c05Engine) enqueue(p *c05Party, msgs []*protocol.Message) {
	p.Out = append(p.Out, msgs...)
	for _, m := range msgs {
		if m == nil {
			continue
		}
		for _, id := range e.spec.IDs {
			if id == p.ID {
				continue
			}
			if m.To != "" && m.To != id {
				continue
			}
			k := c05EnvKey(p.ID, id, m)
			e.keyCount[k]++
			if c := e.keyCount[k]; c > 1 {
				k = fmt.Sprintf("%s#%d", k, c)
			}
			env := &c05Envl{Key: k, From: p.ID, To: id, Msg: m}
			if e.record {
				e.All[k] = env
				e.AllKeys = append(e.AllKeys, k)
			}
			if e.live[id] != nil {
				e.pool = append(e.pool, env)
			}
		}
	}
}

func (e *c05Engine) take(key string) *c05Envl {
	for i, x := range e.pool {
		if x.Key == key {
			e.pool = append(e.pool[:i], e.pool[i+1:]...)
			return x
		}
	}
	if e.recorded != nil && !e.used[key] {
		if x := e.recorded[key]; x != nil && e.live[x.From] == nil {
			e.used[key] = true
			return x
		}
	}
	return nil
}

// ---------------------------------------------------------------------------------------------
// observations (same tuple as harness/pump.go obsSx, for the Coq handler model)

type c05Obs struct {
	Round    int
	Class    int // 0 not finished, 1 value, 2 error
	Culprits []int
	CulIDs   []string
	ErrKind  int
	ErrText  string
	NewOut   []sx.V
	Closed   bool
	Panic    string
	QB, QP   int
	HashRnds []int
	Extra    int
	Hung     bool
}

func (e *c05Engine) Intern(kind string, b []byte) int64 {
	if b == nil {
		return 0
	}
	k := kind + "\x00" + string(b)
	if v, ok := e.intern[k]; ok {
		return v
	}
	v := int64(len(e.intern) + 1)
	e.intern[k] = v
	return v
}

func (e *c05Engine) idx(id party.ID) int {
	for i, x := range e.spec.IDs {
		if x == id {
			return i
		}
	}
	return 999
}

func (e *c05Engine) toIdx(id party.ID) int {
	if id == "" {
		return -1
	}
	if i := e.idx(id); i != 999 {
		return i
	}
	return 998
}

func c05NonNil(b []byte) []byte {
	if b == nil {
		return []byte{}
	}
	return b
}

func (e *c05Engine) msgSx(m *protocol.Message, valid bool) sx.V {
	fp := e.Intern("msg", m.Hash())
	return sx.List(sx.Int(e.Intern("ssid", c05NonNil(m.SSID))), sx.Int(e.Intern("proto", []byte(m.Protocol))), sx.Int(int64(e.idx(m.From))),
		sx.Int(int64(e.toIdx(m.To))), sx.Int(int64(m.RoundNumber)), sx.Bool(m.Data != nil), sx.Bool(m.Broadcast),
		sx.Int(e.Intern("digest", m.BroadcastVerification)), sx.Int(fp), sx.Bool(valid))
}

func (e *c05Engine) outSx(m *protocol.Message) sx.V {
	return sx.List(sx.Int(int64(e.toIdx(m.To))), sx.Int(int64(m.RoundNumber)), sx.Bool(m.Broadcast), sx.Int(e.Intern("digest", m.BroadcastVerification)))
}

func c05ErrKind(text string) int {
	switch {
	case text == "":
		return 0
	case strings.Contains(text, "aborted by other party"):
		return 1
	case strings.Contains(text, "broadcast verification failed"):
		return 3
	case strings.Contains(text, "aborted by user"):
		return 5
	}
	return 2
}

func (e *c05Engine) observe(p *c05Party, msgs []*protocol.Message, pan string, extra int, hung bool) c05Obs {
	o := c05Obs{Panic: pan, Extra: extra, Hung: hung}
	for _, m := range msgs {
		if m != nil {
			o.NewOut = append(o.NewOut, e.outSx(m))
		}
	}
	if hung {
		return o
	}
	if p.MH != nil {
		st := p.MH.VerifState()
		o.Round = int(st.Round)
		if st.HasResult {
			o.Class = 1
		} else if st.HasErr {
			o.Class = 2
		}
		for _, c := range st.Culprits {
			o.Culprits = append(o.Culprits, e.idx(c))
			o.CulIDs = append(o.CulIDs, string(c))
		}
		o.ErrText = st.ErrText
		o.ErrKind = c05ErrKind(st.ErrText)
		if st.HasErr && o.ErrKind == 0 {
			o.ErrKind = 2
		}
		for _, q := range st.Broadcasts {
			o.QB += len(q)
		}
		for _, q := range st.Messages {
			o.QP += len(q)
		}
		for r := range st.Hashes {
			o.HashRnds = append(o.HashRnds, int(r))
		}
		sort.Ints(o.HashRnds)
	} else if p.TH != nil {
		st := p.TH.VerifState()
		o.Round = int(st.Round.Number)
		if st.HasResult {
			o.Class = 1
		} else if st.HasErr {
			o.Class = 2
		}
		o.ErrText = st.ErrText
		o.ErrKind = c05ErrKind(st.ErrText)
		o.QP = len(st.Stored)
	}
	o.Closed = p.closed
	p.lastO = o
	return o
}

func c05ObsSx(o c05Obs) sx.V {
	cul := []sx.V{}
	for _, c := range o.Culprits {
		cul = append(cul, sx.Int(int64(c)))
	}
	hr := []sx.V{}
	for _, r := range o.HashRnds {
		hr = append(hr, sx.Int(int64(r)))
	}
	rt := 0
	if o.Panic != "" {
		rt = 10
		if strings.Contains(o.Panic, "close of closed") {
			rt = 11
		} else if strings.Contains(o.Panic, "send on closed") {
			rt = 12
		}
	}
	if o.Hung {
		rt = 2
	}
	closes := 0
	if o.Closed {
		closes = 1
	}
	no := o.NewOut
	if no == nil {
		no = []sx.V{}
	}
	return sx.List(sx.Int(int64(o.Round)), sx.Int(int64(o.Class)), sx.List(cul...), sx.Int(int64(o.ErrKind)), sx.List(no...),
		sx.Int(int64(closes)), sx.Int(int64(rt)), sx.Int(int64(o.QB)), sx.Int(int64(o.QP)), sx.List(hr...), sx.Int(int64(o.Extra)))
}

func c05NormObs(v sx.V) string {
	if v.Kind != 2 || len(v.L) != 11 {
		return v.String()
	}
	c := append([]sx.V{}, v.L...)
	sortL := func(x sx.V) sx.V {
		ss := make([]string, len(x.L))
		for i := range x.L {
			ss[i] = x.L[i].String()
		}
		sort.Strings(ss)
		return sx.Str(strings.Join(ss, " "))
	}
	c[2], c[4], c[9] = sortL(c[2]), sortL(c[4]), sortL(c[9])
	return sx.List(c...).String()
}

// ---------------------------------------------------------------------------------------------
// API calls with bookkeeping

func (e *c05Engine) noteBad(p *c05Party, kind, text, stack, key, call string) {
	if e.bad != nil {
		return
	}
	e.bad = &c05Bad{Party: string(p.ID), Kind: kind, Text: text, Site: c05PanicSite(stack), Stack: c05TrimStack(stack), AtKey: key, Call: call}
}

func c05TrimStack(s string) string {
	lines := strings.Split(s, "\n")
	var keep []string
	for i := 0; i+1 < len(lines) && len(keep) < 24; i++ {
		l := lines[i]
		if strings.HasPrefix(l, "goroutine ") || strings.HasPrefix(l, "runtime/debug.Stack") || strings.HasPrefix(l, "main.") || strings.HasPrefix(l, "\t") {
			continue
		}
		loc := strings.TrimSpace(lines[i+1])
		if j := strings.Index(loc, " +0x"); j >= 0 {
			loc = loc[:j]
		}
		if q := strings.LastIndex(l, "("); q > 0 && !strings.HasPrefix(l[q:], "(*") {
			l = l[:q]
		}
		keep = append(keep, l+" @ "+loc)
	}
	return strings.Join(keep, " | ")
}

// accept delivers msg to party p (Accept), recording the model event and observation.
func (e *c05Engine) accept(p *c05Party, msg *protocol.Message, valid bool, key string) c05Obs {
	e.env.rnd.setParty(string(p.ID))
	e.deliveries++
	if p.MH != nil && msg != nil {
		p.events = append(p.events, sx.List(sx.Int(0), e.msgSx(msg, valid)))
	}
	msgs, pan, stack, hung := e.call(p, func() { p.H.Accept(msg) })
	o := e.observe(p, msgs, pan, 0, hung)
	if p.MH != nil && msg != nil {
		p.obs = append(p.obs, c05ObsSx(o))
		e.noteDrain(p, o, len(msgs))
	}
	if pan != "" {
		e.noteBad(p, "PANIC", pan, stack, key, "Accept")
	} else if hung {
		e.noteBad(p, "HANG", fmt.Sprintf("Accept did not return (watchdog: %s of CPU time used by the call, or parked in a blocking operation) while the outgoing channel was being drained", e.timeout), stack, key, "Accept")
	}
	e.enqueue(p, msgs)
	return o
}

func (e *c05Engine) canAccept(p *c05Party, msg *protocol.Message, key string) (bool, c05Obs) {
	e.env.rnd.setParty(string(p.ID))
	var res bool
	if p.MH != nil && msg != nil {
		p.events = append(p.events, sx.List(sx.Int(3), e.msgSx(msg, true)))
	}
	msgs, pan, stack, hung := e.call(p, func() { res = p.H.CanAccept(msg) })
	x := 0
	if res {
		x = 1
	}
	o := e.observe(p, msgs, pan, x, hung)
	if p.MH != nil && msg != nil {
		p.obs = append(p.obs, c05ObsSx(o))
		e.noteDrain(p, o, len(msgs))
	}
	if pan != "" {
		e.noteBad(p, "PANIC", pan, stack, key, "CanAccept")
	} else if hung {
		e.noteBad(p, "HANG", "CanAccept did not return", "", key, "CanAccept")
	}
	e.enqueue(p, msgs)
	return res, o
}

// noteDrain tells the model that the k messages the call put on the outgoing channel were taken off it
// (the harness always drains Listen() while a call runs; the model counts buffered messages against the capacity).
func (e *c05Engine) noteDrain(p *c05Party, o c05Obs, k int) {
	if p.MH == nil || k == 0 || o.Hung || o.Panic != "" {
		return
	}
	p.events = append(p.events, sx.List(sx.Int(2), sx.Int(int64(k))))
	o.NewOut, o.Extra = nil, 0
	p.obs = append(p.obs, c05ObsSx(o))
}

func (e *c05Engine) partyDead(p *c05Party) bool {
	return e.bad != nil && e.bad.Party == string(p.ID)
}

// runFIFO delivers the pool in emission order until it is empty (reference runs / prerequisite sessions).
func (e *c05Engine) runFIFO(max int) {
	for k := 0; len(e.pool) > 0 && k < max; k++ {
		env := e.pool[0]
		e.pool = e.pool[1:]
		p := e.live[env.To]
		if p == nil || e.partyDead(p) {
			continue
		}
		e.Order = append(e.Order, env.Key)
		e.accept(p, env.Msg, true, env.Key)
	}
}

func (e *c05Engine) result(id party.ID) (interface{}, string) {
	p := e.live[id]
	if p == nil || p.H == nil {
		return nil, "no handler"
	}
	var r interface{}
	var err error
	func() {
		defer func() {
			if x := recover(); x != nil {
				err = fmt.Errorf("PANIC in Result: %v", x)
			}
		}()
		r, err = p.H.Result()
	}()
	if err != nil {
		return nil, err.Error()
	}
	return r, ""
}

// shape of the session for the Coq handler model, learned from a party that ran to the end
type c05Shape struct {
	Final int
	Bcast map[int]bool
	P2P   map[int]int
}

func (e *c05Engine) learnShape() c05Shape {
	sh := c05Shape{Bcast: map[int]bool{}, P2P: map[int]int{}}
	for _, p := range e.live {
		if p.MH == nil {
			continue
		}
		st := p.MH.VerifState()
		sh.Final = int(st.Final)
		for _, r := range st.Rounds {
			if r.Abort || r.Output {
				continue
			}
			sh.Bcast[int(r.Number)] = r.Broadcast
			if r.P2P && sh.P2P[int(r.Number)] == 0 {
				sh.P2P[int(r.Number)] = 2
			}
		}
		for _, m := range p.Out {
			if m != nil && !m.Broadcast && m.RoundNumber > 0 && m.To == "" {
				sh.P2P[int(m.RoundNumber)] = 1
			}
		}
	}
	return sh
}

func (sh c05Shape) sx() sx.V {
	var rs []sx.V
	for r := 0; r <= sh.Final+1; r++ {
		rs = append(rs, sx.List(sx.Bool(sh.Bcast[r]), sx.Int(int64(sh.P2P[r]))))
	}
	return sx.List(sx.Int(int64(sh.Final)), sx.List(rs...))
}

// modelArg builds the "hnd.run" argument replaying party p's recorded history.
func (e *c05Engine) modelArg(p *c05Party, sh c05Shape) (sx.V, bool) {
	if p.MH == nil || len(p.Out) == 0 || p.Out[0] == nil {
		return sx.V{}, false
	}
	st := p.MH.VerifState()
	var vht, fpt []sx.V
	for r, d := range st.Hashes {
		vht = append(vht, sx.List(sx.Int(int64(r)), sx.Int(e.Intern("digest", d))))
	}
	sort.Slice(vht, func(i, j int) bool { return vht[i].L[0].Z.Cmp(vht[j].L[0].Z) < 0 })
	seen := map[int]bool{}
	for _, m := range p.Out {
		if m != nil && m.Broadcast && !seen[int(m.RoundNumber)] {
			seen[int(m.RoundNumber)] = true
			fpt = append(fpt, sx.List(sx.Int(int64(m.RoundNumber)), sx.Int(e.Intern("msg", m.Hash()))))
		}
	}
	ssid, proto := e.Intern("ssid", c05NonNil(p.Out[0].SSID)), e.Intern("proto", []byte(p.Out[0].Protocol))
	return sx.List(sx.Int(int64(e.idx(p.ID))), sx.Int(int64(len(e.spec.IDs))), sx.Int(ssid), sx.Int(proto), sh.sx(),
		sx.List(vht...), sx.List(fpt...), sx.Bool(true), sx.List(p.events...)), true
}
