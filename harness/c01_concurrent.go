package main

// C01, concurrent part: several signing sessions run at the same time in one process (each on its own goroutine, each with
// private key-material objects restored from bytes, so that nothing but the library's package-level state is shared).
// Every session must complete and every returned signature must verify under the Coq reference verifier.

import (
	"fmt"
	"math/rand"
	"sync"

	"github.com/fxamacker/cbor/v2"

	"github.com/taurusgroup/multi-party-sig/pkg/math/curve"
	"github.com/taurusgroup/multi-party-sig/pkg/party"
	"github.com/taurusgroup/multi-party-sig/protocols/doerner"
	"github.com/taurusgroup/multi-party-sig/protocols/frost"
)

type c01ConcReplay struct {
	Kind       string `json:"kind"`
	Goroutines int    `json:"goroutines"`
	PerG       int    `json:"sessions_per_goroutine"`
	Seed       int64  `json:"seed"`
	Failed     int    `json:"failed_sessions"`
	First      string `json:"first_problem"`
}

type c01ConcOut struct {
	kind string
	pub  interface{}
	msg  []byte
	res  []interface{}
	errs []string
}

func (c *ctx) c01Concurrent() {
	G, per := 8, 3
	if c.thorough() {
		G, per = 16, 10
	}
	g := curve.Secp256k1{}
	ids := idsOf("alice", "bob", "carl")
	kg := runToEnd(specFrostKeygen(ids, 1, false, []byte("c01conc")), c.res.Seed+991, "fifo")
	cfgs, _ := frostConfigs(kg)
	if len(cfgs) != 3 {
		c.res.Violate("property", "C01/frost-keygen-incomplete", "keygen for signing material did not complete", nil)
		return
	}
	ser := map[party.ID][]byte{}
	for id, cf := range cfgs {
		b, err := cbor.Marshal(cf)
		if err != nil {
			c.res.Note("c01Concurrent: cannot serialize frost config: %v", err)
			return
		}
		ser[id] = b
	}
	pub := cfgs[ids[0]].PublicKey
	// Doerner material
	dids := idsOf("recv", "send")
	dkg := twoPartySim(dids, nil, doerner.Keygen(g, true, dids[0], dids[1], nil), doerner.Keygen(g, false, dids[1], dids[0], nil), []byte("c01concd"), true, false)
	dkg.RunFIFO(10000)
	rr, _ := resultOf(dkg.Nodes[dids[0]])
	rs, _ := resultOf(dkg.Nodes[dids[1]])
	cr, ok1 := rr.(*doerner.ConfigReceiver)
	cs, ok2 := rs.(*doerner.ConfigSender)
	var serR, serS []byte
	if ok1 && ok2 {
		serR, _ = cbor.Marshal(cr)
		serS, _ = cbor.Marshal(cs)
	}
	baseSeed := c.res.Seed*7919 + 17
	outs := make([][]c01ConcOut, G)
	var wg sync.WaitGroup
	for gi := 0; gi < G; gi++ {
		gi := gi
		wg.Add(1)
		go func() {
			defer wg.Done()
			rng := rand.New(rand.NewSource(baseSeed + int64(gi)))
			for k := 0; k < per; k++ {
				msg := msgOfLen(rng, 32)
				if (gi+k)%2 == 0 || serR == nil {
					// FROST sign, signers: two of three
					S := []party.ID{ids[(gi+k)%3], ids[(gi+k+1)%3]}
					mine := map[party.ID]*frost.Config{}
					o := c01ConcOut{kind: "frost-sign", pub: pub, msg: msg}
					for _, id := range S {
						n := frost.EmptyConfig(g)
						if err := cbor.Unmarshal(ser[id], n); err != nil {
							o.errs = append(o.errs, "restore: "+err.Error())
						}
						mine[id] = n
					}
					if len(o.errs) == 0 {
						sp := specFrostSign(mine, party.NewIDSlice(S), msg, []byte{byte(gi), byte(k)})
						s := sp.build(rand.New(rand.NewSource(rng.Int63())), nil)
						s.RunFIFO(100000)
						for _, id := range s.IDs {
							r, e := resultOf(s.Nodes[id])
							if r == nil {
								o.errs = append(o.errs, fmt.Sprintf("%s did not complete: %s", id, e))
							} else {
								o.res = append(o.res, r)
							}
						}
					}
					outs[gi] = append(outs[gi], o)
				} else {
					nr, ns := doerner.EmptyConfigReceiver(g), doerner.EmptyConfigSender(g)
					o := c01ConcOut{kind: "doerner-sign", msg: msg}
					if err := cbor.Unmarshal(serR, nr); err != nil {
						o.errs = append(o.errs, "restore: "+err.Error())
					}
					if err := cbor.Unmarshal(serS, ns); err != nil {
						o.errs = append(o.errs, "restore: "+err.Error())
					}
					if len(o.errs) == 0 {
						o.pub = nr.Public
						sg := twoPartySim(dids, nil, doerner.SignReceiver(nr, dids[0], dids[1], msg, nil), doerner.SignSender(ns, dids[1], dids[0], msg, nil), []byte{byte(gi), byte(k), 9}, true, true)
						sg.RunFIFO(10000)
						got := false
						for _, id := range sg.IDs {
							r, e := resultOf(sg.Nodes[id])
							if r != nil {
								o.res = append(o.res, r)
								got = true
							} else if id == dids[0] {
								o.errs = append(o.errs, fmt.Sprintf("%s did not complete: %s", id, e))
							}
						}
						if !got {
							o.errs = append(o.errs, "no party returned a signature")
						}
					}
					outs[gi] = append(outs[gi], o)
				}
			}
		}()
	}
	if !withWatchdog(300e9, func() { wg.Wait() }) {
		c.res.Violate("property", "C01/concurrent/hang", "concurrent signing sessions did not end", c01ConcReplay{Goroutines: G, PerG: per, Seed: baseSeed})
		return
	}
	fails := map[string]int{}
	first := map[string]string{}
	for gi := range outs {
		for k, o := range outs[gi] {
			c.res.Case("concurrent/"+o.kind, fmt.Sprintf("%d/%d/%d", baseSeed, gi, k), true)
			probs := append([]string{}, o.errs...)
			for _, r := range o.res {
				if _, isSig := r.(interface{}); isSig {
					ok, why := c.verifyAnySignature(o.pub, r, o.msg)
					c.res.Corr(ok)
					if !ok {
						probs = append(probs, "signature invalid under the reference verifier "+why)
					}
				}
			}
			if len(probs) > 0 {
				fails[o.kind]++
				if first[o.kind] == "" {
					first[o.kind] = fmt.Sprintf("goroutine %d session %d: %s", gi, k, probs[0])
				}
			}
		}
	}
	for kind, n := range fails {
		c.res.Violate("property", "C01/concurrent/"+kind, fmt.Sprintf("%d of the sessions run concurrently in one process failed (sequentially they succeed): %s", n, first[kind]),
			c01ConcReplay{Kind: kind, Goroutines: G, PerG: per, Seed: baseSeed, Failed: n, First: first[kind]})
	}
}
