package main

// C07 on protocol.TwoPartyHandler -- Doerner key generation and signing under schedules with duplicates, stale re-sends
// and early deliveries of GENUINE messages (the quantifier of C07: delivery order, duplication, early arrival).
//
// Schedules (all deterministic given the case seed; the sessions use fixed per-party random streams, so the messages
// harvested from the undisturbed reference run are exactly the ones the peer sends in every run -- checked per spec):
//   dup-each        every message is delivered twice in a row (second copy re-decoded from the wire bytes)
//   stale-before    before every fresh delivery to X, EVERY earlier message already given to X is re-sent, oldest first
//   stale-after     the same re-sends right after the fresh delivery
//   stale-both      before and after
//   early-all       before anything else each party is given every genuine message it will ever receive, latest round
//                   first; the regular deliveries that follow are then duplicates / stale re-sends
//   early-next      before every fresh delivery of round r to X, X is given the genuine message of round r+1
//   lifo            newest in-flight envelope first (a reordering whenever two envelopes are in flight)
//   random-mix/k    at every point a seeded choice of: fresh delivery (random in-flight envelope), duplicate of an in-flight
//                   envelope, stale re-send of anything given before, early genuine message of a later round
// and, in every schedule, a final sweep that re-sends everything to everybody after the end.
//
// Oracle (on the implementation, not on the library's verdict): no panic, no blocked call, EVERY party completes and returns
// the result of the in-order run (result fingerprint).  Every node's API history is replayed in the Coq two-party model
// (Model/TwoParty.v, op tph.run, stored round numbers included), as c17_twoparty.go does: where the handler cannot
// reorder by design the model's prediction is what is compared.

import (
	"fmt"
	"math/rand"
	"sort"
	"strings"

	"github.com/taurusgroup/multi-party-sig/pkg/party"
	"github.com/taurusgroup/multi-party-sig/pkg/protocol"
)

// (a schedule named wire/<schedule> is <schedule> with every message crossing the wire format before Accept: pump.go Sim.Wire)
var c07tpSchedules = []string{"fifo", "dup-each", "stale-before", "stale-after", "stale-both", "early-all", "early-next", "lifo", "wire/stale-both"}

// c07Retransmit: what a retransmission looks like to the recipient -- the same wire bytes decoded again (a new object)
func c07Retransmit(m *protocol.Message) *protocol.Message {
	b, err := m.MarshalBinary()
	if err != nil {
		cp := *m
		return &cp
	}
	cp := new(protocol.Message)
	if cp.UnmarshalBinary(b) != nil {
		x := *m
		return &x
	}
	return cp
}

// c07tpRun executes one schedule; returns the sim, the delivery order and whether a call blocked.
func (c *ctx) c07tpRun(sp tpSpec, ref *tpRef, sched string, seed int64) (*Sim, []string, bool) {
	det := installDetReader(sp.DetSeed, 0)
	defer restoreRandReader()
	rng := rand.New(rand.NewSource(seed))
	s := sp.Build(det)
	s.AcceptTimeout = 60e9
	if strings.HasPrefix(sched, "wire/") {
		s.Wire, sched = true, strings.TrimPrefix(sched, "wire/")
	}
	for _, n := range s.Nodes {
		if n.H == nil {
			return s, nil, false
		}
		tpNote(n)
	}
	var order []string
	dead := false
	given := map[party.ID][]*protocol.Message{} // per recipient: genuine messages delivered so far, in order of first delivery
	deliver := func(m *protocol.Message, to party.ID, tag string) {
		if dead {
			return
		}
		e := &Env{Msg: m, To: to, Valid: true, Tag: tag}
		order = append(order, envName(e))
		if o := s.tpDeliver(e); o.Hung {
			dead = true
		}
	}
	fresh := func(e *Env) {
		deliver(e.Msg, e.To, "")
		given[e.To] = append(given[e.To], e.Msg)
	}
	stale := func(to party.ID, upto int) {
		g := given[to]
		if upto > len(g) {
			upto = len(g)
		}
		for _, m := range g[:upto] {
			deliver(c07Retransmit(m), to, "/stale")
		}
	}
	harvest := func(to party.ID, r int) *protocol.Message {
		if !ref.Determ {
			return nil
		}
		return ref.Harvest[to][r]
	}
	mix := strings.HasPrefix(sched, "random-mix")
	if sched == "early-all" {
		for _, id := range s.IDs {
			for r := ref.Final; r >= 1; r-- {
				if m := harvest(id, r); m != nil {
					deliver(c07Retransmit(m), id, "/early")
				}
			}
		}
	}
	for steps := 0; len(s.Flight) > 0 && steps < 400 && !dead; steps++ {
		switch {
		case mix:
			switch k := rng.Intn(10); {
			case k <= 3:
				fresh(s.take(rng.Intn(len(s.Flight))))
			case k <= 5:
				e := s.Flight[rng.Intn(len(s.Flight))] // stays in flight
				deliver(c07Retransmit(e.Msg), e.To, "/dup")
			case k <= 7:
				to := s.IDs[rng.Intn(len(s.IDs))]
				if g := given[to]; len(g) > 0 {
					deliver(c07Retransmit(g[rng.Intn(len(g))]), to, "/stale")
				}
			default:
				to := s.IDs[rng.Intn(len(s.IDs))]
				if m := harvest(to, 1+rng.Intn(ref.Final)); m != nil {
					tag := "/early"
					if n := s.Nodes[to]; len(n.Obs) > 0 && int(m.RoundNumber) <= n.Obs[len(n.Obs)-1].Round {
						tag = "/stale"
					}
					deliver(c07Retransmit(m), to, tag)
				}
			}
		case sched == "lifo":
			fresh(s.take(len(s.Flight) - 1))
		default:
			e := s.take(0)
			before := len(given[e.To])
			if sched == "stale-before" || sched == "stale-both" {
				stale(e.To, before)
			}
			if sched == "early-next" {
				if m := harvest(e.To, int(e.Msg.RoundNumber)+1); m != nil {
					deliver(c07Retransmit(m), e.To, "/early")
				}
			}
			fresh(e)
			if sched == "dup-each" {
				deliver(c07Retransmit(e.Msg), e.To, "/dup")
			}
			if sched == "stale-after" || sched == "stale-both" {
				stale(e.To, before)
			}
		}
	}
	// after the end: everything once more, to everybody
	if sched != "fifo" {
		for _, id := range s.IDs {
			stale(id, len(given[id]))
		}
	}
	return s, order, dead
}

func (c *ctx) c07tpCheck(sp tpSpec, ref *tpRef, sched string, seed int64) {
	s, order, dead := c.c07tpRun(sp, ref, sched, seed)
	pol := sched
	if i := strings.Index(pol, "/"); i >= 0 {
		pol = pol[:i]
	}
	c.res.Case(sp.Name+"/twoparty/"+pol, sp.Name+"/"+strings.Join(order, ","), len(order) > 0)
	c.res.Sample(6, map[string]interface{}{"spec": sp.Name, "schedule": sched, "order": order})
	res := map[party.ID]string{}
	bad := ""
	ids := append([]party.ID{}, s.IDs...)
	sort.Slice(ids, func(i, j int) bool { return ids[i] < ids[j] })
	for _, id := range ids {
		n := s.Nodes[id]
		if n.H == nil {
			bad = fmt.Sprintf("party %s could not start: %v", id, n.StartErr)
			continue
		}
		for _, o := range n.Obs {
			if o.Panic != "" {
				bad = fmt.Sprintf("party %s panicked: %s", id, o.Panic)
			}
			if o.Hung {
				bad = fmt.Sprintf("party %s: Accept did not return although Listen() had been emptied before the call", id)
			}
		}
		if dead {
			continue
		}
		r, errText := resultOf(n)
		if errText != "" {
			res[id] = "ERR:" + errText
			if bad == "" {
				bad = fmt.Sprintf("party %s did not complete: %s", id, errText)
			}
		} else {
			res[id] = resultFP(r)
			if ref.Determ && res[id] != ref.FP[id] && bad == "" {
				bad = fmt.Sprintf("party %s result differs from the in-order run", id)
			}
		}
	}
	if bad != "" {
		c.res.Violate("property", "C07/"+sp.Name+"/"+pol, bad+" (schedule "+sched+": only genuine messages, duplicated / re-sent / delivered early)",
			schedReplay{Spec: sp.Name, Seed: seed, Policy: sched, Order: order, Expected: resString(ref.FP), Observed: resString(res)})
	}
	if dead {
		return
	}
	for _, id := range ids {
		n := s.Nodes[id]
		i, mo, ro, err := c.CompareTwoPartyWithModel(s, n, ref.Shapes[id], true, true)
		if err != nil {
			c.res.Corr(false)
			c.res.Violate("correspondence", "C07/twoparty-model-error", err.Error(), schedReplay{Spec: sp.Name, Seed: seed, Policy: sched, Order: order})
			continue
		}
		c.res.Corr(i < 0)
		if i >= 0 {
			c.res.Violate("correspondence", "C07/twoparty-handler-model/"+sp.Name, "two-party handler state differs from the Coq model after an event",
				schedReplay{Spec: sp.Name, Seed: seed, Policy: sched, Order: order, Expected: mo, Observed: ro, Node: string(id), Event: i})
		}
	}
}

// ---------------------------------------------------------------------------------------------
// foreign-session traffic: every message of a sibling execution at every position of the victim's schedule

type tpForeignOut struct {
	Skip    string // non-empty: the sibling cannot serve as a source of foreign traffic (why)
	SameTag bool   // the sibling has the victim's session tag: its messages are not foreign by anything a handler can see
	Foreign int    // messages of the sibling
	Offered int
	Bad     string // first failure of the oracle
	Sim     *Sim
	Order   []string
	Dead    bool
	Res     map[party.ID]string
}

// tpForeignRun: the sibling session is run to completion (its own random streams) and all its messages are collected; then
// the victim session runs in order, and at every position -- before the first delivery, after every delivery, after the end --
// every sibling message is offered to the party it could be meant for: CanAccept must be false, a forced Accept must leave
// the state fingerprint (incl. the set of stored rounds) unchanged and emit nothing.  The victim must complete with the
// result of its undisturbed run.
func (c *ctx) tpForeignRun(sp tpSpec, ref *tpRef, sib tpSpec) *tpForeignOut {
	o := &tpForeignOut{Res: map[party.ID]string{}}
	// the sibling execution
	sdet := installDetReader(sib.DetSeed, 0)
	a := sib.Build(sdet)
	for _, n := range a.Nodes {
		if n.H == nil {
			restoreRandReader()
			o.Skip = fmt.Sprintf("sibling session did not start: %v", n.StartErr)
			return o
		}
	}
	a.RunFIFO(1000)
	restoreRandReader()
	var foreign []*protocol.Message
	var atag []byte
	for _, id := range a.IDs {
		for _, m := range a.Nodes[id].Out {
			foreign = append(foreign, m)
			if atag == nil {
				atag = nonNil(m.SSID)
			}
		}
	}
	o.Foreign = len(foreign)
	if len(foreign) == 0 {
		o.Skip = "sibling session emitted nothing"
		return o
	}
	vtag := ref.Shapes[sp.IDs[0]].SSID
	if sameBytes(atag, vtag) {
		o.SameTag = true
		return o
	}
	// the victim
	det := installDetReader(sp.DetSeed, 0)
	defer restoreRandReader()
	s := sp.Build(det)
	s.AcceptTimeout = 60e9
	o.Sim = s
	for _, n := range s.Nodes {
		if n.H == nil {
			o.Skip = fmt.Sprintf("victim session did not start: %v", n.StartErr)
			return o
		}
		tpNote(n)
	}
	position := 0
	offerAll := func() {
		position++
		for _, m := range foreign {
			for _, id := range s.IDs {
				if o.Dead || !m.IsFor(id) {
					continue
				}
				n := s.Nodes[id]
				o.Offered++
				e := &Env{Msg: c07Retransmit(m), To: id, Valid: true, Tag: "/foreign"}
				o.Order = append(o.Order, envName(e))
				before := tpStateFP(n)
				can := s.tpCanAccept(id, e.Msg, true)
				ob := s.tpDeliver(e)
				if ob.Hung {
					o.Dead = true
				}
				after := ""
				if !o.Dead {
					after = tpStateFP(n)
				}
				if o.Bad == "" && (can || o.Dead || after != before || len(ob.NewOut) > 0 || ob.Panic != "") {
					o.Bad = fmt.Sprintf("round-%d message of %s from the sibling session (tag %x, victim tag %x) offered to %s at position %d: CanAccept=%v, state changed=%v, emitted=%d, panic=%q, blocked=%v (handler now: round %d, error %q)",
						m.RoundNumber, m.From, atag[:6], vtag[:6], id, position, can, after != before, len(ob.NewOut), ob.Panic, ob.Hung, ob.Round, ob.ErrText)
				}
			}
		}
	}
	offerAll()
	for steps := 0; len(s.Flight) > 0 && steps < 400 && !o.Dead; steps++ {
		e := s.take(0)
		o.Order = append(o.Order, envName(e))
		if ob := s.tpDeliver(e); ob.Hung {
			o.Dead = true
		}
		offerAll()
	}
	if o.Dead {
		return o
	}
	for _, id := range s.IDs {
		r, errText := resultOf(s.Nodes[id])
		if errText != "" {
			o.Res[id] = "ERR:" + errText
			if o.Bad == "" {
				o.Bad = fmt.Sprintf("party %s did not complete: %s", id, errText)
			}
		} else {
			o.Res[id] = resultFP(r)
			if ref.Determ && o.Res[id] != ref.FP[id] && o.Bad == "" {
				o.Bad = fmt.Sprintf("party %s result differs from the undisturbed run", id)
			}
		}
	}
	return o
}

// c07tpForeign: one sibling as the source of foreign traffic for sp.
func (c *ctx) c07tpForeign(sp tpSpec, ref *tpRef, sib tpSpec) {
	o := c.tpForeignRun(sp, ref, sib)
	sched := "foreign/" + sib.Name
	class := sp.Name + "/twoparty/" + sched
	switch {
	case o.Skip != "":
		c.res.Case(class+"/skipped", sp.Name+"/"+sched, false)
		c.res.Note("%s %s: %s", sp.Name, sched, o.Skip)
		return
	case o.SameTag:
		c.res.Case(class+"/same-tag(not-foreign)", sp.Name+"/"+sched, false)
		c.res.Note("%s: the sibling session differing in %s has the SAME session tag: nothing a handler sees tells its messages from the session's own (C09 judges tags; not used as foreign traffic here)", sp.Name, sib.Name)
		return
	}
	c.res.Case(class, sp.Name+"/"+strings.Join(o.Order, ","), o.Offered > 0)
	c.res.Sample(8, map[string]interface{}{"spec": sp.Name, "schedule": sched, "foreign_messages": o.Foreign, "offers": o.Offered})
	rp := schedReplay{Spec: sp.Name, Seed: c.res.Seed, Policy: sched, Order: o.Order, Expected: resString(ref.FP), Observed: resString(o.Res)}
	if len(rp.Order) > 60 {
		rp.Order = append(append([]string{}, rp.Order[:60]...), fmt.Sprintf("... (%d more)", len(o.Order)-60))
	}
	if o.Bad != "" {
		c.res.Violate("property", "C07/"+sp.Name+"/"+sched, "a message of another session (differing in "+sib.Name+") is not a no-op for a two-party session: "+o.Bad, rp)
	}
	if o.Dead || o.Sim == nil {
		return
	}
	for _, id := range o.Sim.IDs {
		i, mo, ro, err := c.CompareTwoPartyWithModel(o.Sim, o.Sim.Nodes[id], ref.Shapes[id], true, true)
		if err != nil {
			c.res.Corr(false)
			c.res.Violate("correspondence", "C07/twoparty-model-error", err.Error(), rp)
			continue
		}
		c.res.Corr(i < 0)
		if i >= 0 {
			r2 := rp
			r2.Expected, r2.Observed, r2.Node, r2.Event = mo, ro, string(id), i
			c.res.Violate("correspondence", "C07/twoparty-handler-model/"+sp.Name, "two-party handler state differs from the Coq model after an event (foreign-session traffic)", r2)
		}
	}
}

// c07TwoParty: called at the end of runC07; with rp != nil only that case is re-run.
func (c *ctx) c07TwoParty(rp *schedReplay) {
	c.res.Rule += "; TwoPartyHandler (Doerner keygen, sign): genuine messages only -- every message twice, every earlier message re-sent before / after / around " +
		"every later delivery, every genuine later-round message given early (all at the start; the next round's before each delivery), LIFO, seeded mixes of " +
		"fresh / duplicate / stale / early, final re-send of everything; every party must complete with the in-order result; every node replayed in the Coq two-party model; " +
		"foreign-session traffic: every message of a sibling execution (other session id, absent session id, keygen vs sign, swapped roles, other message) at every position of the in-order schedule: refused, state unchanged, in-order result"
	specs, err := tpSpecs()
	if err != nil {
		c.res.Violate("property", "C07/twoparty/setup", "Doerner reference sessions did not complete: "+err.Error(), nil)
		return
	}
	nMix := 12
	if c.thorough() {
		nMix = 300
	}
	for _, sp := range specs {
		ref, err := c.tpReference(sp)
		if err != nil {
			c.res.Violate("property", "C07/twoparty/reference/"+sp.Name, "honest reference run failed: "+err.Error(), nil)
			continue
		}
		if !ref.Determ {
			c.res.Note("%s: two runs with the same random streams differ; early deliveries and result comparison are not available", sp.Name)
		}
		if rp != nil {
			if rp.Spec == sp.Name && strings.HasPrefix(rp.Policy, "foreign/") {
				for _, sib := range sp.Sibs {
					if "foreign/"+sib.Name == rp.Policy {
						c.c07tpForeign(sp, ref, sib)
					}
				}
			} else if rp.Spec == sp.Name {
				c.c07tpCheck(sp, ref, rp.Policy, rp.Seed)
			}
			continue
		}
		for _, sched := range c07tpSchedules {
			c.c07tpCheck(sp, ref, sched, c.res.Seed)
		}
		// foreign-session traffic: every message of every sibling session at every position
		for _, sib := range sp.Sibs {
			c.c07tpForeign(sp, ref, sib)
		}
		for k := 0; k < nMix; k++ {
			c.c07tpCheck(sp, ref, fmt.Sprintf("random-mix/%d", k), c.res.Seed*100000+int64(k))
		}
	}
}
