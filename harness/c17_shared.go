package main

// C17 (race part): several MultiHandlers of ONE party created from ONE *Config object, running concurrently.
// An application that signs several messages at once does exactly this: frost.Sign(cfg, ...) k times with the same cfg.
// FROST key generation n=3,t=1 (one *frost.Config / *frost.TaprootConfig per party, never copied), then 8 signing sessions
// (same message x4, different messages x4; signer sets {a,b}, {a,c}, {b,c}, {a,b,c} in turn) each pumped by its own goroutine
// (single-threaded inside a session).  Under the race detector (vh_race C17RACE) any unsynchronised write to the shared config
// (points / scalars that normalise or cache inside "read-only" operations) is reported; results are checked afterwards,
// sequentially: every session completes, all signers of a session return the same signature, valid under the reference verifier.

import (
	"fmt"
	"sync"

	"github.com/taurusgroup/multi-party-sig/pkg/party"
	"github.com/taurusgroup/multi-party-sig/pkg/protocol"
	"github.com/taurusgroup/multi-party-sig/pkg/taproot"
	"github.com/taurusgroup/multi-party-sig/protocols/frost"
)

type c17SharedReplay struct {
	What     string   `json:"what"`
	Taproot  bool     `json:"taproot"`
	Sessions int      `json:"concurrent_sessions"`
	Iter     int      `json:"iteration"`
	Problems []string `json:"problems"`
}

// pumpOwn drives the handlers of one session from the calling goroutine only (the README's loop: read Listen, then Accept)
func pumpOwn(hs map[party.ID]protocol.Handler, order []party.ID) {
	closed := map[party.ID]bool{}
	for steps := 0; steps < 10000; steps++ {
		var queue []*protocol.Message
		for _, id := range order {
			if closed[id] {
				continue
			}
			ch := hs[id].Listen()
		drain:
			for {
				select {
				case m, ok := <-ch:
					if !ok {
						closed[id] = true
						break drain
					}
					queue = append(queue, m)
				default:
					break drain
				}
			}
		}
		if len(queue) == 0 {
			return
		}
		for _, m := range queue {
			for _, id := range order {
				if m.From != id && m.IsFor(id) {
					hs[id].Accept(m)
				}
			}
		}
	}
}

func (c *ctx) c17SharedConfig(iters, sessions int) {
	for it := 0; it < iters; it++ {
		tap := it%2 == 1
		ids := idsOf("alice", "bob", "carl")
		kg := runToEnd(specFrostKeygen(ids, 1, tap, []byte{byte(it), 's'}), c.res.Seed+int64(it), "fifo")
		cfgs, tcfgs := frostConfigs(kg)
		if len(cfgs)+len(tcfgs) != 3 {
			c.res.Note("c17 shared config: keygen incomplete")
			continue
		}
		sets := [][]party.ID{{ids[0], ids[1]}, {ids[0], ids[2]}, {ids[1], ids[2]}, {ids[0], ids[1], ids[2]}}
		type sessRes struct {
			S    []party.ID
			msg  []byte
			res  map[party.ID]interface{}
			errs map[party.ID]string
			pan  string
		}
		out := make([]*sessRes, sessions)
		var wg sync.WaitGroup
		for k := 0; k < sessions; k++ {
			k := k
			S := party.NewIDSlice(sets[k%len(sets)])
			msg := []byte(fmt.Sprintf("same message %d...................", it))[:32]
			if k >= sessions/2 {
				msg = []byte(fmt.Sprintf("message %d of iteration %d...........", k, it))[:32]
			}
			sr := &sessRes{S: S, msg: msg, res: map[party.ID]interface{}{}, errs: map[party.ID]string{}}
			out[k] = sr
			wg.Add(1)
			go func() {
				defer wg.Done()
				defer func() {
					if p := recover(); p != nil {
						sr.pan = fmt.Sprint(p)
					}
				}()
				hs := map[party.ID]protocol.Handler{}
				for _, id := range S {
					var start protocol.StartFunc
					if tap {
						start = frost.SignTaproot(tcfgs[id], S, msg) // the SAME *TaprootConfig in every session
					} else {
						start = frost.Sign(cfgs[id], S, msg) // the SAME *Config in every session
					}
					h, err := protocol.NewMultiHandler(start, []byte{byte(it), byte(k)})
					if err != nil {
						sr.errs[id] = "start: " + err.Error()
						return
					}
					hs[id] = h
				}
				pumpOwn(hs, S)
				for _, id := range S {
					r, err := hs[id].Result()
					if err != nil {
						sr.errs[id] = err.Error()
					} else {
						sr.res[id] = r
					}
				}
			}()
		}
		if !withWatchdog(120e9, func() { wg.Wait() }) {
			c.res.Violate("property", "C17/race/shared-config/hang", "concurrent signing sessions created from one config object per party did not end", c17SharedReplay{What: "vh_race C17RACE", Taproot: tap, Sessions: sessions, Iter: it})
			return
		}
		// checks, sequentially
		var probs []string
		for k, sr := range out {
			if sr.pan != "" {
				probs = append(probs, fmt.Sprintf("session %d panicked: %s", k, sr.pan))
			}
			first := ""
			for _, id := range sr.S {
				if e := sr.errs[id]; e != "" {
					probs = append(probs, fmt.Sprintf("session %d (signers %v): %s did not complete: %s", k, sr.S, id, e))
					continue
				}
				r := sr.res[id]
				if r == nil {
					continue
				}
				var pub interface{}
				if tap {
					pub = taproot.PublicKey(tcfgs[id].PublicKey)
				} else {
					pub = cfgs[id].PublicKey
				}
				ok, why := c.verifyAnySignature(pub, r, sr.msg)
				c.res.Corr(ok)
				if !ok {
					probs = append(probs, fmt.Sprintf("session %d: signature returned to %s is invalid under the reference verifier %s", k, id, why))
				}
				if fp := resultFP(r); first == "" {
					first = fp
				} else if fp != first {
					probs = append(probs, fmt.Sprintf("session %d: %s returned a different signature", k, id))
				}
			}
		}
		c.res.Case(fmt.Sprintf("race/shared-config/frost-sign/taproot=%v/sessions=%d", tap, sessions), fmt.Sprintf("shared/%d", it), true)
		if len(probs) > 0 {
			c.res.Violate("property", "C17/race/shared-config/"+c01ProblemClass(probs[0]), fmt.Sprintf("%d concurrent FROST signing sessions, all handlers of a party created from ONE config object: %s", sessions, retJoin(probs)),
				c17SharedReplay{What: "vh_race C17RACE", Taproot: tap, Sessions: sessions, Iter: it, Problems: probs})
		}
	}
}
