package main

// c05_direct.go -- C05 outside the handlers: restoring stored key material / wire messages from malformed bytes, the hand-written
// binary decoders on wrong lengths / counts, commitment validation, and zero-knowledge proof verification on structurally
// incomplete proofs (every pointer / interface field nil in turn): each must return an error / false, never panic, hang or exhaust memory.

import (
	"encoding/hex"
	"fmt"
	"math/big"
	"math/rand"
	"reflect"
	"runtime/debug"
	"strings"
	"time"

	"github.com/cronokirby/saferith"
	"github.com/fxamacker/cbor/v2"
	"github.com/taurusgroup/multi-party-sig/pkg/ecdsa"
	"github.com/taurusgroup/multi-party-sig/pkg/hash"
	"github.com/taurusgroup/multi-party-sig/pkg/math/curve"
	"github.com/taurusgroup/multi-party-sig/pkg/math/polynomial"
	"github.com/taurusgroup/multi-party-sig/pkg/paillier"
	"github.com/taurusgroup/multi-party-sig/pkg/party"
	"github.com/taurusgroup/multi-party-sig/pkg/pedersen"
	"github.com/taurusgroup/multi-party-sig/pkg/protocol"
	"github.com/taurusgroup/multi-party-sig/pkg/verifhook"
	zkaffg "github.com/taurusgroup/multi-party-sig/pkg/zk/affg"
	zkaffp "github.com/taurusgroup/multi-party-sig/pkg/zk/affp"
	zkdec "github.com/taurusgroup/multi-party-sig/pkg/zk/dec"
	zkelog "github.com/taurusgroup/multi-party-sig/pkg/zk/elog"
	zkenc "github.com/taurusgroup/multi-party-sig/pkg/zk/enc"
	zkencelg "github.com/taurusgroup/multi-party-sig/pkg/zk/encelg"
	zkfac "github.com/taurusgroup/multi-party-sig/pkg/zk/fac"
	zklog "github.com/taurusgroup/multi-party-sig/pkg/zk/log"
	zklogstar "github.com/taurusgroup/multi-party-sig/pkg/zk/logstar"
	zkmod "github.com/taurusgroup/multi-party-sig/pkg/zk/mod"
	zkmul "github.com/taurusgroup/multi-party-sig/pkg/zk/mul"
	zkmulstar "github.com/taurusgroup/multi-party-sig/pkg/zk/mulstar"
	zknth "github.com/taurusgroup/multi-party-sig/pkg/zk/nth"
	zkprm "github.com/taurusgroup/multi-party-sig/pkg/zk/prm"
	zksch "github.com/taurusgroup/multi-party-sig/pkg/zk/sch"
	"github.com/taurusgroup/multi-party-sig/protocols/cmp"
	"github.com/taurusgroup/multi-party-sig/protocols/doerner"
	"github.com/taurusgroup/multi-party-sig/protocols/frost"
)

var c05Group = curve.Secp256k1{}

// c05Decoders: name -> function applying the decoder to raw bytes (returns a short description of the normal result)
var c05Decoders = map[string]func(b []byte) string{
	"unmarshal/cmp.Config": func(b []byte) string {
		c := cmp.EmptyConfig(c05Group)
		if err := c.UnmarshalBinary(b); err != nil {
			return "error"
		}
		// what a caller does next with restored material
		_ = c.PartyIDs()
		_ = c.PublicPoint()
		_ = c.CanSign(c.PartyIDs())
		return "ok"
	},
	"unmarshal/frost.Config": func(b []byte) string {
		c := frost.EmptyConfig(c05Group)
		if err := cbor.Unmarshal(b, c); err != nil {
			return "error"
		}
		return "ok"
	},
	"unmarshal/frost.TaprootConfig": func(b []byte) string {
		c := &frost.TaprootConfig{}
		if err := cbor.Unmarshal(b, c); err != nil {
			return "error"
		}
		return "ok"
	},
	"unmarshal/doerner.ConfigReceiver": func(b []byte) string {
		c := doerner.EmptyConfigReceiver(c05Group)
		if err := cbor.Unmarshal(b, c); err != nil {
			return "error"
		}
		return "ok"
	},
	"unmarshal/doerner.ConfigSender": func(b []byte) string {
		c := doerner.EmptyConfigSender(c05Group)
		if err := cbor.Unmarshal(b, c); err != nil {
			return "error"
		}
		return "ok"
	},
	"unmarshal/ecdsa.PreSignature": func(b []byte) string {
		p := ecdsa.EmptyPreSignature(c05Group)
		if err := cbor.Unmarshal(b, p); err != nil {
			return "error"
		}
		if err := p.Validate(); err != nil {
			return "invalid"
		}
		return "ok"
	},
	"unmarshal/ecdsa.Signature": func(b []byte) string {
		s := ecdsa.EmptySignature(c05Group)
		if err := cbor.Unmarshal(b, &s); err != nil {
			return "error"
		}
		return "ok"
	},
	"unmarshal/protocol.Message": func(b []byte) string {
		m := &protocol.Message{}
		if err := m.UnmarshalBinary(b); err != nil {
			return "error"
		}
		_ = m.Hash()
		_ = m.String()
		return "ok"
	},
	"decode/polynomial.Exponent": func(b []byte) string {
		e := polynomial.EmptyExponent(c05Group)
		if err := e.UnmarshalBinary(b); err != nil {
			return "error"
		}
		return "ok"
	},
	"decode/curve.Scalar": func(b []byte) string {
		if err := c05Group.NewScalar().UnmarshalBinary(b); err != nil {
			return "error"
		}
		return "ok"
	},
	"decode/curve.Point": func(b []byte) string {
		if err := c05Group.NewPoint().UnmarshalBinary(b); err != nil {
			return "error"
		}
		return "ok"
	},
	"decode/paillier.Ciphertext": func(b []byte) string {
		ct := &paillier.Ciphertext{}
		if err := ct.UnmarshalBinary(b); err != nil {
			return "error"
		}
		return "ok"
	},
	"decode/party.PointMap": func(b []byte) string {
		m := party.EmptyPointMap(c05Group)
		if err := m.UnmarshalBinary(b); err != nil {
			return "error"
		}
		return "ok"
	},
	"validate/hash.Commitment": func(b []byte) string {
		if err := hash.Commitment(b).Validate(); err != nil {
			return "error"
		}
		return "ok"
	},
	"validate/hash.Decommitment": func(b []byte) string {
		if err := hash.Decommitment(b).Validate(); err != nil {
			return "error"
		}
		return "ok"
	},
	"validate/types.RID": func(b []byte) string {
		if err := verifhook.RID(b).Validate(); err != nil {
			return "error"
		}
		return "ok"
	},
	"decommit/hash": func(b []byte) string {
		// first 64 bytes commitment, rest decommitment
		var c, d []byte
		if len(b) > 64 {
			c, d = b[:64], b[64:]
		} else {
			c = b
		}
		if hash.New().Decommit(hash.Commitment(c), hash.Decommitment(d), verifhook.RID(make([]byte, 32))) {
			return "ok"
		}
		return "false"
	},
}

// c05RunDirect applies a decoder under recover and a watchdog.
func c05RunDirect(dec string, in []byte, key string) c05Outcome {
	oc := c05Outcome{Key: key, Bucket: strings.SplitN(strings.TrimPrefix(key, "C05/"), "/", 3)[0] + "/" + dec, Target: dec, Note: "direct", Mode: "direct", State: "", Spec: "direct",
		FP: fmt.Sprintf("%s|%x", dec, c05ShortHash(string(in))), Nontriv: true, MsgLen: len(in)}
	f := c05Decoders[dec]
	if f == nil {
		if strings.HasPrefix(dec, "zk/") {
			return c05RunZK(dec, in, key)
		}
		oc.Class, oc.Err = "unreached", "unknown decoder"
		return oc
	}
	type res struct{ out, pan, stack string }
	done := make(chan res, 1)
	go func() {
		var r res
		defer func() {
			if x := recover(); x != nil {
				r.pan, r.stack = fmt.Sprint(x), string(debug.Stack())
			}
			done <- r
		}()
		r.out = f(in)
	}()
	select {
	case r := <-done:
		if r.pan != "" {
			oc.Class = "PANIC"
			oc.Bad = &c05Bad{Party: dec, Kind: "PANIC", Text: r.pan, Site: c05PanicSite(r.stack), Stack: c05TrimStack(r.stack), Call: dec}
			oc.MsgHex = hex.EncodeToString(in)
		} else if r.out == "ok" {
			oc.Class = "continued"
		} else {
			oc.Class = "clean-abort"
		}
	case <-c05After(20 * time.Second):
		oc.Class = "HANG"
		st := c05HungStack()
		oc.Bad = &c05Bad{Party: dec, Kind: "HANG", Text: "decoder did not return within 20s", Site: c05PanicSite(st), Stack: c05TrimStack(st), Call: dec}
		oc.MsgHex = hex.EncodeToString(in)
	}
	return oc
}

// c05After fires when the watchdog (CPU-time based, see c05Watchdog) expires
func c05After(limit time.Duration) <-chan struct{} {
	ch := make(chan struct{})
	wd := newC05Watchdog(limit)
	go func() {
		for !wd.expired() {
			time.Sleep(200 * time.Millisecond)
			if time.Since(wd.t0) > 61*limit {
				break
			}
		}
		close(ch)
	}()
	return ch
}

type c05DirectCase struct {
	dec   string
	class string
	in    []byte
	gen   func() []byte // large inputs are built on demand
}

func c05Dc(dec, class string, in []byte) c05DirectCase {
	return c05DirectCase{dec: dec, class: class, in: in}
}

func (d c05DirectCase) input() []byte {
	if d.gen != nil {
		return d.gen()
	}
	return d.in
}

// byte-level classes derived from a genuine encoding g
func c05ByteCases(dec string, g []byte, rng *rand.Rand, nFlip, nRand int) []c05DirectCase {
	var cs []c05DirectCase
	add := func(class string, b []byte) { cs = append(cs, c05Dc(dec, class, b)) }
	add("empty", []byte{})
	add("nil", nil)
	for b := 0; b < 256; b++ {
		add("onebyte", []byte{byte(b)})
	}
	step := 1
	if len(g) > 400 {
		step = len(g) / 200
	}
	for k := 1; k < len(g); k += step {
		add("truncated", append([]byte{}, g[:k]...))
	}
	for i := 0; i < nFlip && len(g) > 0; i++ {
		f := append([]byte{}, g...)
		f[rng.Intn(len(f))] ^= 1 << uint(rng.Intn(8))
		add("bitflip", f)
	}
	for i := 0; i < nRand; i++ {
		n := 1 + rng.Intn(2*len(g)+40)
		b := make([]byte, n)
		rng.Read(b)
		add("random", b)
	}
	if len(g) > 0 {
		add("trailing", append(append([]byte{}, g...), 0x00))
		add("doubled", append(append([]byte{}, g...), g...))
	}
	return cs
}

// structured classes: every CBOR path x malformation of a genuine encoding
func c05TreeCases(dec string, g []byte) []c05DirectCase {
	tree, err := c05CParseAll(g)
	if err != nil {
		return nil
	}
	var cs []c05DirectCase
	for _, p := range c05CPaths(tree, 3) {
		_, node, _ := c05CAt(tree, p)
		for _, ml := range c05CMalformationsFor(node, len(p.Steps) == 0) {
			if len(p.Steps) == 0 && ml.Remove {
				continue
			}
			label := p.Label
			if label == "" {
				label = "/."
			}
			pp, mm := p, ml
			cs = append(cs, c05DirectCase{dec: dec, class: "tree" + label + "/" + ml.Name, gen: func() []byte {
				data, ok := c05CReplace(tree, pp, mm.repl())
				if !ok {
					return g
				}
				return data
			}})
		}
	}
	return cs
}

func c05Be32(v uint32) []byte { return []byte{byte(v >> 24), byte(v >> 16), byte(v >> 8), byte(v)} }

func (c *ctx) c05ChildDirect(env *c05Env, job *c05Job, w *c05Writer) {
	rng := rand.New(rand.NewSource(c05SeedFor(job.Seed, "direct")))
	nFlip, nRand := 150, 120
	if job.Tier == "thorough" {
		nFlip, nRand = 3000, 5000
	}
	var cases []c05DirectCase
	genuine := map[string][]byte{}
	note := func(f string, a ...interface{}) { w.line(c05Line{Note: fmt.Sprintf(f, a...)}) }
	// ---- genuine stored material
	if cfgs, err := env.cmpConfigs(); err == nil {
		if b, err := cfgs["bob"].MarshalBinary(); err == nil {
			genuine["unmarshal/cmp.Config"] = b
		}
	} else {
		note("no CMP config available: %v", err)
	}
	if fc, err := env.frostConfigs(); err == nil {
		if b, err := cbor.Marshal(fc["bob"]); err == nil {
			genuine["unmarshal/frost.Config"] = b
		}
		if b, err := fc["bob"].VerificationShares.MarshalBinary(); err == nil {
			genuine["decode/party.PointMap"] = b
		}
	} else {
		note("no FROST config: %v", err)
	}
	if tc, err := env.frostTaprootConfigs(); err == nil {
		if b, err := cbor.Marshal(tc["bob"]); err == nil {
			genuine["unmarshal/frost.TaprootConfig"] = b
		}
	}
	if cr, cs, err := env.doernerConfigs(); err == nil {
		if b, err := cbor.Marshal(cr); err == nil {
			genuine["unmarshal/doerner.ConfigReceiver"] = b
		}
		if b, err := cbor.Marshal(cs); err == nil {
			genuine["unmarshal/doerner.ConfigSender"] = b
		}
	} else {
		note("no Doerner config: %v", err)
	}
	if pre, err := c05LoadPresigIfAny(env); err == nil && pre != nil {
		if b, err := cbor.Marshal(pre); err == nil {
			genuine["unmarshal/ecdsa.PreSignature"] = b
		}
	} else {
		// a structurally genuine presignature built from public API values
		pm := party.NewPointMap(map[party.ID]curve.Point{"alice": c05Group.NewBasePoint(), "bob": c05Group.NewBasePoint()})
		one := c05Group.NewScalar().SetNat(new(saferith.Nat).SetUint64(1))
		ps := &ecdsa.PreSignature{ID: verifhook.RID(c05Rep(7, 32)), R: c05Group.NewBasePoint(), RBar: pm, S: pm, KShare: one, ChiShare: one}
		if b, err := cbor.Marshal(ps); err == nil {
			genuine["unmarshal/ecdsa.PreSignature"] = b
		}
	}
	{
		one := c05Group.NewScalar().SetNat(new(saferith.Nat).SetUint64(1))
		sig := ecdsa.Signature{R: c05Group.NewBasePoint(), S: one}
		if b, err := cbor.Marshal(sig); err == nil {
			genuine["unmarshal/ecdsa.Signature"] = b
		}
		if b, err := one.MarshalBinary(); err == nil {
			genuine["decode/curve.Scalar"] = b
		}
		if b, err := c05Group.NewBasePoint().MarshalBinary(); err == nil {
			genuine["decode/curve.Point"] = b
		}
		m := &protocol.Message{SSID: c05Rep(1, 64), From: "alice", To: "bob", Protocol: "cmp/sign", RoundNumber: 3, Data: []byte{0xa1, 0x61, 0x41, 0x01}, Broadcast: false, BroadcastVerification: c05Rep(2, 64)}
		if b, err := m.MarshalBinary(); err == nil {
			genuine["unmarshal/protocol.Message"] = b
		}
		sec := polynomial.NewPolynomial(c05Group, 2, one)
		if b, err := polynomial.NewPolynomialExponent(sec).MarshalBinary(); err == nil {
			genuine["decode/polynomial.Exponent"] = b
		}
		genuine["decode/paillier.Ciphertext"] = c05Rep(3, 512)
		genuine["validate/hash.Commitment"] = c05Rep(5, 64)
		genuine["validate/hash.Decommitment"] = c05Rep(5, 32)
		genuine["validate/types.RID"] = c05Rep(5, 32)
		genuine["decommit/hash"] = c05Rep(5, 96)
	}
	var decs []string
	for d := range genuine {
		decs = append(decs, d)
	}
	c05SortStrings(decs)
	for _, d := range decs {
		g := genuine[d]
		cases = append(cases, c05Dc(d, "genuine", g))
		cases = append(cases, c05ByteCases(d, g, rng, nFlip, nRand)...)
		if strings.HasPrefix(d, "unmarshal/") || d == "decode/party.PointMap" {
			cases = append(cases, c05TreeCases(d, g)...)
		}
	}
	// ---- hand-written decoders: lengths, counts, ranges
	q, _ := new(big.Int).SetString("fffffffffffffffffffffffffffffffebaaedce6af48a03bbfd25e8cd0364141", 16)
	p, _ := new(big.Int).SetString("fffffffffffffffffffffffffffffffffffffffffffffffffffffffefffffc2f", 16)
	pad32 := func(z *big.Int) []byte { return z.FillBytes(make([]byte, 32)) }
	for _, n := range []int{0, 1, 2, 31, 33, 34, 63, 64, 65, 128} {
		cases = append(cases, c05Dc("decode/curve.Scalar", fmt.Sprintf("length-%d", n), c05Rep(1, n)))
		cases = append(cases, c05Dc("decode/curve.Point", fmt.Sprintf("length-%d", n), append([]byte{2}, c05Rep(1, c05MaxInt(n-1, 0))...)[:n]))
		cases = append(cases, c05Dc("validate/hash.Commitment", fmt.Sprintf("length-%d", n), c05Rep(1, n)))
		cases = append(cases, c05Dc("validate/hash.Decommitment", fmt.Sprintf("length-%d", n), c05Rep(1, n)))
		cases = append(cases, c05Dc("validate/types.RID", fmt.Sprintf("length-%d", n), c05Rep(1, n)))
		cases = append(cases, c05Dc("validate/hash.Commitment", fmt.Sprintf("zeros-%d", n), c05Rep(0, n)))
		cases = append(cases, c05Dc("validate/hash.Decommitment", fmt.Sprintf("zeros-%d", n), c05Rep(0, n)))
		cases = append(cases, c05Dc("decommit/hash", fmt.Sprintf("length-%d", n), c05Rep(1, n)))
	}
	for name, z := range map[string]*big.Int{"zero": big.NewInt(0), "one": big.NewInt(1), "q-1": new(big.Int).Sub(q, big.NewInt(1)), "q": q, "q+1": new(big.Int).Add(q, big.NewInt(1)),
		"p": p, "2^256-1": new(big.Int).Sub(new(big.Int).Lsh(big.NewInt(1), 256), big.NewInt(1))} {
		cases = append(cases, c05Dc("decode/curve.Scalar", "value-"+name, pad32(z)))
		for _, pre := range []byte{0, 1, 2, 3, 4, 5, 6, 7, 0xff} {
			cases = append(cases, c05Dc("decode/curve.Point", fmt.Sprintf("prefix-%02x-x-%s", pre, name), append([]byte{pre}, pad32(z)...)))
		}
	}
	// Exponent: 4-byte count header + CBOR
	gexp := genuine["decode/polynomial.Exponent"]
	for name, in := range map[string][]byte{
		"len1": {1}, "len2": {1, 2}, "len3": {1, 2, 3}, "count0-nobody": c05Be32(0), "count1-nobody": c05Be32(1), "count-ffffffff": c05Be32(0xffffffff),
		"count-ffffffff-body": append(c05Be32(0xffffffff), 0x80), "count-7fffffff": c05Be32(0x7fffffff), "count-10000000": c05Be32(0x10000000),
		"count-1M-body": append(c05Be32(1<<20), 0xa0), "count-64k-emptymap": append(c05Be32(1<<16), 0xa0),
	} {
		cases = append(cases, c05Dc("decode/polynomial.Exponent", name, in))
	}
	if len(gexp) > 4 {
		for name, cnt := range map[string]uint32{"count-plus1": 4, "count-minus1": 2, "count-zero": 0, "count-big": 100000} {
			cases = append(cases, c05Dc("decode/polynomial.Exponent", "genuine-"+name, append(c05Be32(cnt), gexp[4:]...)))
		}
	}
	// ---- zero-knowledge proofs with missing parts
	cases = append(cases, c05ZKCases(env, note)...)
	// run
	skipSet := map[string]bool{}
	for _, k := range job.SkipClasses {
		skipSet[k] = true
	}
	if len(skipSet) > 0 {
		note("decoder classes cut short after killing the child three times: %s", strings.Join(job.SkipClasses, ", "))
	}
	for i, cs := range cases {
		if i < job.Start {
			continue
		}
		key := "C05/" + cs.dec + "/" + cs.class
		if strings.HasPrefix(cs.dec, "unmarshal/") {
			key = "C05/" + cs.dec + "/" + cs.class
		}
		if skipSet[key] {
			continue
		}
		ii := i
		ln := c05Line{Start: &ii, I: i, Key: key, Dec: cs.dec}
		in := cs.input()
		if len(in) <= 8192 {
			ln.In = hex.EncodeToString(in)
		}
		w.line(ln)
		oc := c05RunDirect(cs.dec, in, key)
		oc.I = i
		oc.Core = true
		if cs.class == "genuine" {
			oc.Nontriv = false
			if oc.Class != "continued" && !strings.HasPrefix(cs.dec, "zk/") && cs.dec != "decommit/hash" {
				oc.Note = "direct"
				note("genuine encoding for %s was not accepted (%s); the malformed variants of it are still run", cs.dec, oc.Class)
			}
		}
		if oc.Bad != nil && oc.MsgHex == "" {
			oc.MsgHex = hex.EncodeToString(in)
		}
		w.line(c05Line{Out: &oc})
		if oc.Class == "HANG" {
			nx := i + 1
			w.line(c05Line{Next: &nx})
			w.f.Close()
			c05OsExit(0)
		}
	}
	w.line(c05Line{Total: len(cases)})
}

func c05MaxInt(a, b int) int {
	if a > b {
		return a
	}
	return b
}

func c05LoadPresigIfAny(env *c05Env) (*ecdsa.PreSignature, error) {
	if env.cmpPre != nil {
		return env.cmpPre["bob"], nil
	}
	return nil, fmt.Errorf("none")
}

// ---------------------------------------------------------------------------------------------
// zk proofs: zero values, Empty(), and "everything filled with well-typed dummies except one field"

type c05ZkTarget struct {
	name   string
	fresh  func() interface{}               // zero-valued *Proof
	empty  func() interface{}               // Empty(group) if the package has one
	verify func(p interface{}) (bool, bool) // IsValid (true if the package has none), Verify
}

// base: what a decoded proof starts from -- the package's Empty(group) where it has one (it carries the unexported group), else the zero value
func (t *c05ZkTarget) base() interface{} {
	if t.empty != nil {
		return t.empty()
	}
	return t.fresh()
}

type c05ZkWorld struct {
	pk   *paillier.PublicKey
	aux  *pedersen.Parameters
	ct   *paillier.Ciphertext
	nat  *saferith.Nat
	intv *saferith.Int
	pt   curve.Point
	sc   curve.Scalar
	eg   *verifhook.ElGamalCiphertext
	ok   bool
}

var c05ZKW c05ZkWorld
var c05ZKTargets []c05ZkTarget

func c05ZKInit(env *c05Env) error {
	if c05ZKW.ok {
		return nil
	}
	cfgs, err := env.cmpConfigs()
	if err != nil {
		return err
	}
	a, b := cfgs["alice"].Public["alice"], cfgs["alice"].Public["bob"]
	W := c05ZkWorld{pk: a.Paillier, aux: b.Pedersen, nat: new(saferith.Nat).SetUint64(2), intv: new(saferith.Int).SetUint64(2),
		pt: c05Group.NewBasePoint(), sc: c05Group.NewScalar().SetNat(new(saferith.Nat).SetUint64(3))}
	W.ct, _ = W.pk.Enc(W.intv)
	W.eg, _ = verifhook.ElGamalEncrypt(W.pt, W.sc)
	W.ok = true
	c05ZKW = W
	g := c05Group
	H := func() *hash.Hash { return hash.New() }
	c05ZKTargets = []c05ZkTarget{
		{"enc", func() interface{} { return &zkenc.Proof{} }, nil, func(p interface{}) (bool, bool) {
			pub := zkenc.Public{K: W.ct, Prover: W.pk, Aux: W.aux}
			return p.(*zkenc.Proof).IsValid(pub), p.(*zkenc.Proof).Verify(g, H(), pub)
		}},
		{"affg", func() interface{} { return &zkaffg.Proof{} }, func() interface{} { return zkaffg.Empty(g) }, func(p interface{}) (bool, bool) {
			pub := zkaffg.Public{Kv: W.ct, Dv: W.ct, Fp: W.ct, Xp: W.pt, Prover: W.pk, Verifier: W.pk, Aux: W.aux}
			return p.(*zkaffg.Proof).IsValid(pub), p.(*zkaffg.Proof).Verify(H(), pub)
		}},
		{"affp", func() interface{} { return &zkaffp.Proof{} }, nil, func(p interface{}) (bool, bool) {
			pub := zkaffp.Public{Kv: W.ct, Dv: W.ct, Fp: W.ct, Xp: W.ct, Prover: W.pk, Verifier: W.pk, Aux: W.aux}
			return p.(*zkaffp.Proof).IsValid(pub), p.(*zkaffp.Proof).Verify(g, H(), pub)
		}},
		{"dec", func() interface{} { return &zkdec.Proof{} }, func() interface{} { return zkdec.Empty(g) }, func(p interface{}) (bool, bool) {
			pub := zkdec.Public{C: W.ct, X: W.sc, Prover: W.pk, Aux: W.aux}
			return p.(*zkdec.Proof).IsValid(pub), p.(*zkdec.Proof).Verify(H(), pub)
		}},
		{"elog", func() interface{} { return &zkelog.Proof{} }, func() interface{} { return zkelog.Empty(g) }, func(p interface{}) (bool, bool) {
			pub := zkelog.Public{E: W.eg, ElGamalPublic: W.pt, Base: W.pt, Y: W.pt}
			return p.(*zkelog.Proof).IsValid(pub), p.(*zkelog.Proof).Verify(H(), pub)
		}},
		{"encelg", func() interface{} { return &zkencelg.Proof{} }, func() interface{} { return zkencelg.Empty(g) }, func(p interface{}) (bool, bool) {
			pub := zkencelg.Public{C: W.ct, A: W.pt, B: W.pt, X: W.pt, Prover: W.pk, Aux: W.aux}
			return p.(*zkencelg.Proof).IsValid(pub), p.(*zkencelg.Proof).Verify(H(), pub)
		}},
		{"fac", func() interface{} { return &zkfac.Proof{} }, nil, func(p interface{}) (bool, bool) {
			pub := zkfac.Public{N: W.pk.N(), Aux: W.aux}
			return true, p.(*zkfac.Proof).Verify(pub, H())
		}},
		{"log", func() interface{} { return &zklog.Proof{} }, func() interface{} { return zklog.Empty(g) }, func(p interface{}) (bool, bool) {
			pub := zklog.Public{H: W.pt, X: W.pt, Y: W.pt}
			return p.(*zklog.Proof).IsValid(), p.(*zklog.Proof).Verify(H(), pub)
		}},
		{"logstar", func() interface{} { return &zklogstar.Proof{} }, func() interface{} { return zklogstar.Empty(g) }, func(p interface{}) (bool, bool) {
			pub := zklogstar.Public{C: W.ct, X: W.pt, G: W.pt, Prover: W.pk, Aux: W.aux}
			return p.(*zklogstar.Proof).IsValid(pub), p.(*zklogstar.Proof).Verify(H(), pub)
		}},
		{"mod", func() interface{} { return &zkmod.Proof{} }, nil, func(p interface{}) (bool, bool) {
			pub := zkmod.Public{N: W.pk.N()}
			return p.(*zkmod.Proof).IsValid(pub), p.(*zkmod.Proof).Verify(pub, H(), nil)
		}},
		{"mul", func() interface{} { return &zkmul.Proof{} }, nil, func(p interface{}) (bool, bool) {
			pub := zkmul.Public{X: W.ct, Y: W.ct, C: W.ct, Prover: W.pk}
			return p.(*zkmul.Proof).IsValid(pub), p.(*zkmul.Proof).Verify(g, H(), pub)
		}},
		{"mulstar", func() interface{} { return &zkmulstar.Proof{} }, func() interface{} { return zkmulstar.Empty(g) }, func(p interface{}) (bool, bool) {
			pub := zkmulstar.Public{C: W.ct, D: W.ct, X: W.pt, Verifier: W.pk, Aux: W.aux}
			return p.(*zkmulstar.Proof).IsValid(pub), p.(*zkmulstar.Proof).Verify(g, H(), pub)
		}},
		{"nth", func() interface{} { return &zknth.Proof{} }, nil, func(p interface{}) (bool, bool) {
			pub := zknth.Public{N: W.pk, R: W.nat}
			return p.(*zknth.Proof).IsValid(pub), p.(*zknth.Proof).Verify(H(), pub)
		}},
		{"prm", func() interface{} { return &zkprm.Proof{} }, nil, func(p interface{}) (bool, bool) {
			pub := zkprm.Public{Aux: W.aux}
			return p.(*zkprm.Proof).IsValid(pub), p.(*zkprm.Proof).Verify(pub, H(), nil)
		}},
		{"sch", func() interface{} { return &zksch.Proof{} }, func() interface{} { return zksch.EmptyProof(g) }, func(p interface{}) (bool, bool) {
			return p.(*zksch.Proof).IsValid(), p.(*zksch.Proof).Verify(H(), W.pt, nil)
		}},
	}
	return nil
}

var (
	c05TNat   = reflect.TypeOf((*saferith.Nat)(nil))
	c05TInt   = reflect.TypeOf((*saferith.Int)(nil))
	c05TBig   = reflect.TypeOf((*big.Int)(nil))
	c05TCt    = reflect.TypeOf((*paillier.Ciphertext)(nil))
	c05TPoint = reflect.TypeOf((*curve.Point)(nil)).Elem()
	c05TScal  = reflect.TypeOf((*curve.Scalar)(nil)).Elem()
)

// c05ZkFill sets every settable pointer / interface / slice field (recursively) to a well-typed dummy; returns the leaf paths.
func c05ZkFill(v reflect.Value, path string, leaves *[]string, skip string) {
	W := c05ZKW
	switch v.Kind() {
	case reflect.Struct:
		for i := 0; i < v.NumField(); i++ {
			f := v.Field(i)
			if !f.CanSet() {
				continue
			}
			c05ZkFill(f, path+"."+v.Type().Field(i).Name, leaves, skip)
		}
	case reflect.Ptr:
		*leaves = append(*leaves, path)
		if path == skip {
			v.Set(reflect.Zero(v.Type()))
			return
		}
		switch v.Type() {
		case c05TNat:
			v.Set(reflect.ValueOf(new(saferith.Nat).SetUint64(2)))
		case c05TInt:
			v.Set(reflect.ValueOf(new(saferith.Int).SetUint64(2)))
		case c05TBig:
			v.Set(reflect.ValueOf(big.NewInt(2)))
		case c05TCt:
			v.Set(reflect.ValueOf(W.ct.Clone()))
		default:
			if v.Type().Elem().Kind() == reflect.Struct {
				n := reflect.New(v.Type().Elem())
				c05ZkFill(n.Elem(), path, leaves, skip)
				v.Set(n)
			}
		}
	case reflect.Interface:
		*leaves = append(*leaves, path+"#iface")
		if path == skip {
			v.Set(reflect.Zero(v.Type()))
			return
		}
		switch {
		case v.Type() == c05TPoint:
			v.Set(reflect.ValueOf(W.pt))
		case v.Type() == c05TScal:
			v.Set(reflect.ValueOf(W.sc))
		}
	case reflect.Array:
		for i := 0; i < v.Len(); i++ {
			if i == 0 || i == v.Len()-1 {
				c05ZkFill(v.Index(i), fmt.Sprintf("%s[%d]", path, i), leaves, skip)
			} else {
				var dummy []string
				c05ZkFill(v.Index(i), fmt.Sprintf("%s[%d]", path, i), &dummy, skip)
			}
		}
	case reflect.Slice:
		*leaves = append(*leaves, path)
		if path == skip {
			v.Set(reflect.Zero(v.Type()))
			return
		}
		n := reflect.MakeSlice(v.Type(), 2, 2)
		for i := 0; i < 2; i++ {
			var dummy []string
			c05ZkFill(n.Index(i), fmt.Sprintf("%s[%d]", path, i), &dummy, skip)
		}
		v.Set(n)
	}
}

// zk case inputs are encoded as "variant" strings (the decoder name carries the package): nil | zero | empty | filled | nil:<path>
func c05ZKCases(env *c05Env, note func(string, ...interface{})) []c05DirectCase {
	if err := c05ZKInit(env); err != nil {
		note("zk proof cases skipped: %v", err)
		return nil
	}
	var cs []c05DirectCase
	for _, t := range c05ZKTargets {
		dec := "zk/" + t.name
		cs = append(cs, c05Dc(dec, "nil-proof", []byte("nil")), c05Dc(dec, "zero-proof", []byte("zero")), c05Dc(dec, "filled", []byte("filled")))
		if t.empty != nil {
			cs = append(cs, c05Dc(dec, "empty-proof", []byte("empty")))
		}
		var leaves []string
		p := t.base()
		c05ZkFill(reflect.ValueOf(p).Elem(), "", &leaves, "\x00")
		for _, l := range leaves {
			// interface-typed fields (curve.Point / curve.Scalar) cannot become nil through CBOR decoding into Empty(group);
			// they are direct-API cases and are labelled as such
			if strings.HasSuffix(l, "#iface") {
				l = strings.TrimSuffix(l, "#iface")
				cs = append(cs, c05Dc(dec, "nil-interface-field"+strings.ReplaceAll(l, ".", "/"), []byte("nil:"+l)))
			} else {
				cs = append(cs, c05Dc(dec, "nil-field"+strings.ReplaceAll(l, ".", "/"), []byte("nil:"+l)))
			}
		}
	}
	return cs
}

func c05RunZK(dec string, in []byte, key string) c05Outcome {
	oc := c05Outcome{Key: key, Bucket: "zk/" + strings.TrimPrefix(dec, "zk/"), Target: dec, Note: "direct", Mode: "direct", Spec: "direct", FP: dec + "|" + string(in), Nontriv: true, MsgLen: len(in)}
	var t *c05ZkTarget
	for i := range c05ZKTargets {
		if "zk/"+c05ZKTargets[i].name == dec {
			t = &c05ZKTargets[i]
		}
	}
	if t == nil {
		oc.Class, oc.Err = "unreached", "zk world not initialised"
		return oc
	}
	variant := string(in)
	var p interface{}
	switch {
	case variant == "nil":
		p = reflect.Zero(reflect.TypeOf(t.fresh())).Interface()
	case variant == "zero":
		p = t.fresh()
	case variant == "empty" && t.empty != nil:
		p = t.empty()
	case variant == "filled":
		p = t.base()
		var l []string
		c05ZkFill(reflect.ValueOf(p).Elem(), "", &l, "\x00")
	case strings.HasPrefix(variant, "nil:"):
		p = t.base()
		var l []string
		c05ZkFill(reflect.ValueOf(p).Elem(), "", &l, strings.TrimPrefix(variant, "nil:"))
	default:
		oc.Class, oc.Err = "unreached", "unknown variant"
		return oc
	}
	type res struct {
		valid, ok  bool
		pan, stack string
		where      string
	}
	done := make(chan res, 1)
	go func() {
		var r res
		r.where = "IsValid/Verify"
		defer func() {
			if x := recover(); x != nil {
				r.pan, r.stack = fmt.Sprint(x), string(debug.Stack())
			}
			done <- r
		}()
		r.valid, r.ok = t.verify(p)
	}()
	select {
	case r := <-done:
		switch {
		case r.pan != "":
			oc.Class = "PANIC"
			oc.Bad = &c05Bad{Party: dec, Kind: "PANIC", Text: r.pan, Site: c05PanicSite(r.stack), Stack: c05TrimStack(r.stack), Call: "Verify"}
			oc.MsgHex = hex.EncodeToString(in)
		case r.ok:
			oc.Class = "continued"
			if variant != "filled" || true {
				oc.Err = "Verify returned true for a dummy proof"
			}
		default:
			oc.Class = "clean-abort"
		}
	case <-c05After(20 * time.Second):
		oc.Class = "HANG"
		st := c05HungStack()
		oc.Bad = &c05Bad{Party: dec, Kind: "HANG", Text: "Verify did not return within 20s", Site: c05PanicSite(st), Stack: c05TrimStack(st)}
	}
	return oc
}
