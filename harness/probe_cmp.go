package main

import (
	"fmt"
	"math/rand"
	"time"
)

func init() { props["PROBECMP"] = runProbeCMP }

func runProbeCMP(c *ctx) {
	usePrimeCache()
	ids := idsOf("alice", "bob", "carl")
	t0 := time.Now()
	s := specCMPKeygen(ids, 1, []byte("kg")).build(rand.New(rand.NewSource(1)), nil)
	s.RunFIFO(100000)
	cfgs, err := cmpConfigsOf(s)
	fmt.Println("keygen", time.Since(t0), err)
	if err != nil {
		return
	}
	t0 = time.Now()
	sg := specCMPSign(cfgs, ids[:2], []byte("0123456789abcdef0123456789abcdef"), []byte("sg")).build(rand.New(rand.NewSource(1)), nil)
	sg.RunFIFO(100000)
	r, e := resultOf(sg.Nodes["alice"])
	fmt.Println("sign", time.Since(t0), r != nil, e)
	t0 = time.Now()
	ps := specCMPPresign(cfgs, ids, []byte("ps")).build(rand.New(rand.NewSource(1)), nil)
	ps.RunFIFO(100000)
	r, e = resultOf(ps.Nodes["alice"])
	fmt.Println("presign", time.Since(t0), r != nil, e)
	t0 = time.Now()
	rf := specCMPRefresh(cfgs, ids, []byte("rf")).build(rand.New(rand.NewSource(1)), nil)
	rf.RunFIFO(100000)
	r, e = resultOf(rf.Nodes["alice"])
	fmt.Println("refresh", time.Since(t0), r != nil, e)
	c.res.Case("probe", "x", true)
	c.res.Sample(1, "probe")
}
