package main

// C09, clause "sessions differing in key material are isolated".
//
// For every protocol that starts from stored key material (CMP sign / presign / presign-online / refresh, FROST sign /
// refresh (+taproot), Doerner sign) the fields of the config type are ENUMERATED BY REFLECTION (kmWalk): every leaf of the
// config value -- struct fields, entries of the per-party maps, and the components of the opaque Paillier / Pedersen
// objects -- is a candidate. A leaf whose value is the same in the configs of all parties is a parameter of the session
// (threshold, RID, chain key, public key, every party's public shares / moduli / Pedersen parameters ...); a leaf that
// differs between the parties (own identifier, secret shares, secret keys) is that party's private input, not a session
// parameter, and is only counted. A leaf of a type the harness cannot vary, or an unexported field it does not know, is a
// `not-covered` correspondence violation: a field added to a config type is either varied automatically or reported.
//
// For every session-parameter leaf: session A = the honest configs, session B = the same, except that ONE field of the
// public material of ONE party has another valid value. If the start function still accepts B's config:
//   - the session tags (SSID stamped on the handler's messages) must differ            key .../<field>/same-tag
//   - no message of a complete run of A may be acceptable to B's handler (CanAccept), and a forced Accept must leave the
//     handler's state fingerprint unchanged, emit nothing and not panic             key .../<field>/cross-accept
// Refusals by the start function are counted separately. The property statement binds key material for the CMP protocols
// only (FROST and Doerner sessions do not hash their key material into the tag, by design of the statement): for those only
// the threshold is in scope; the other fields are run and recorded as `unbound (outside the statement)`.
// For CMP configs the item that enters the tag is also compared with the Coq model: BLAKE3(c19.write of the kind-24 value)
// against hash.New().WriteAny(config), for the honest config and for every variant.
//
// Cost: one CMP key generation; the honest runs (one per protocol) and the variants run on several goroutines, each with
// its own deterministic reader (muxReader), its own objects restored from bytes, and sessions without a worker pool.

import (
	"bytes"
	"encoding/hex"
	"fmt"
	"math/big"
	"math/rand"
	"os"
	"reflect"
	"sort"
	"strings"
	"sync"
	"time"

	"github.com/cronokirby/saferith"
	"github.com/fxamacker/cbor/v2"

	"github.com/taurusgroup/multi-party-sig/pkg/ecdsa"
	"github.com/taurusgroup/multi-party-sig/pkg/hash"
	"github.com/taurusgroup/multi-party-sig/pkg/math/arith"
	"github.com/taurusgroup/multi-party-sig/pkg/math/curve"
	"github.com/taurusgroup/multi-party-sig/pkg/paillier"
	"github.com/taurusgroup/multi-party-sig/pkg/party"
	"github.com/taurusgroup/multi-party-sig/pkg/pedersen"
	"github.com/taurusgroup/multi-party-sig/pkg/pool"
	"github.com/taurusgroup/multi-party-sig/pkg/protocol"
	"github.com/taurusgroup/multi-party-sig/pkg/taproot"
	"github.com/taurusgroup/multi-party-sig/protocols/cmp"
	"github.com/taurusgroup/multi-party-sig/protocols/doerner"
	"github.com/taurusgroup/multi-party-sig/protocols/frost"

	"verifharness/sx"
)

// ---------------------------------------------------------------------------------------------
// enumeration of the leaves of a config value

type kmStep struct {
	field string // struct field; "" for a map step
	key   string // map key of a map step
}

type kmLeaf struct {
	path    string // e.g. Public[bob].Pedersen
	field   string // the same without map keys: Public.Pedersen (used in keys)
	steps   []kmStep
	typ     reflect.Type
	problem string // non-empty: the harness cannot vary this leaf
}

var (
	kmTPoint     = reflect.TypeOf((*curve.Point)(nil)).Elem()
	kmTScalar    = reflect.TypeOf((*curve.Scalar)(nil)).Elem()
	kmTCurve     = reflect.TypeOf((*curve.Curve)(nil)).Elem()
	kmTSecpPoint = reflect.TypeOf((*curve.Secp256k1Point)(nil))
	kmTSecpScal  = reflect.TypeOf((*curve.Secp256k1Scalar)(nil))
	kmTPaiPub    = reflect.TypeOf((*paillier.PublicKey)(nil))
	kmTPaiSec    = reflect.TypeOf((*paillier.SecretKey)(nil))
	kmTPedersen  = reflect.TypeOf((*pedersen.Parameters)(nil))
	kmTTapPK     = reflect.TypeOf(taproot.PublicKey(nil))
)

// kmOpaqueShape: the unexported fields of the opaque types the harness rebuilds through their constructors. If the library
// adds a field to one of them, the constructor-based variants no longer cover the type and the leaf is reported.
var kmOpaqueShape = map[reflect.Type][]string{
	kmTPaiPub:   {"n", "nSquared", "nNat", "nPlusOne"},
	kmTPedersen: {"n", "s", "t"},
}

func kmIsBytes(t reflect.Type) bool {
	return t.Kind() == reflect.Slice && t.Elem().Kind() == reflect.Uint8
}

func kmIsInternalOT(t reflect.Type) bool {
	for t.Kind() == reflect.Ptr {
		t = t.Elem()
	}
	return strings.HasSuffix(t.PkgPath(), "/internal/ot")
}

// kmKnown: a type that is varied as a whole (possibly in several components).
func kmKnown(t reflect.Type) bool {
	switch t {
	case kmTPoint, kmTScalar, kmTCurve, kmTSecpPoint, kmTSecpScal, kmTPaiPub, kmTPaiSec, kmTPedersen:
		return true
	}
	if kmIsBytes(t) || kmIsInternalOT(t) {
		return true
	}
	switch t.Kind() {
	case reflect.Int, reflect.Int8, reflect.Int16, reflect.Int32, reflect.Int64, reflect.Uint, reflect.Uint8, reflect.Uint16, reflect.Uint32, reflect.Uint64, reflect.String, reflect.Bool:
		return true
	}
	return false
}

func kmWalk(v reflect.Value, static reflect.Type, path, field string, steps []kmStep, out *[]kmLeaf) {
	leaf := func(problem string) {
		*out = append(*out, kmLeaf{path: path, field: field, steps: append([]kmStep{}, steps...), typ: static, problem: problem})
	}
	if kmKnown(static) {
		problem := ""
		if want, ok := kmOpaqueShape[static]; ok {
			var have []string
			for i := 0; i < static.Elem().NumField(); i++ {
				have = append(have, static.Elem().Field(i).Name)
			}
			if strings.Join(have, ",") != strings.Join(want, ",") {
				problem = fmt.Sprintf("type %s now has the fields %v (the harness knows %v)", static, have, want)
			}
		}
		leaf(problem)
		return
	}
	walkStruct := func(sv reflect.Value) {
		t := sv.Type()
		for i := 0; i < t.NumField(); i++ {
			f := t.Field(i)
			p, fl := f.Name, f.Name
			if path != "" {
				p, fl = path+"."+f.Name, field+"."+f.Name
			}
			if !f.IsExported() {
				if f.Type == kmTCurve {
					continue // the group of a point map: there is one curve
				}
				*out = append(*out, kmLeaf{path: p, field: fl, typ: f.Type, problem: "unexported field of a type the harness does not rebuild"})
				continue
			}
			kmWalk(sv.Field(i), f.Type, p, fl, append(append([]kmStep{}, steps...), kmStep{field: f.Name}), out)
		}
	}
	switch static.Kind() {
	case reflect.Ptr:
		if static.Elem().Kind() != reflect.Struct {
			leaf("pointer to " + static.Elem().Kind().String())
			return
		}
		if v.IsNil() {
			leaf("nil")
			return
		}
		walkStruct(v.Elem())
	case reflect.Struct:
		walkStruct(v)
	case reflect.Map:
		if static.Key().Kind() != reflect.String {
			leaf("map with keys of kind " + static.Key().Kind().String())
			return
		}
		var keys []string
		for _, k := range v.MapKeys() {
			keys = append(keys, k.String())
		}
		sort.Strings(keys)
		for _, k := range keys {
			kmWalk(v.MapIndex(reflect.ValueOf(k).Convert(static.Key())), static.Elem(), path+"["+k+"]", field, append(append([]kmStep{}, steps...), kmStep{key: k}), out)
		}
	default:
		leaf("type " + static.String() + " of kind " + static.Kind().String())
	}
}

// kmResolve follows steps from root (a pointer to a config struct).
func kmResolve(root reflect.Value, steps []kmStep) (reflect.Value, bool) {
	cur := root
	for _, st := range steps {
		for cur.Kind() == reflect.Ptr || cur.Kind() == reflect.Interface {
			if cur.IsNil() {
				return reflect.Value{}, false
			}
			cur = cur.Elem()
		}
		if st.field != "" {
			if cur.Kind() != reflect.Struct {
				return reflect.Value{}, false
			}
			cur = cur.FieldByName(st.field)
		} else {
			if cur.Kind() != reflect.Map {
				return reflect.Value{}, false
			}
			cur = cur.MapIndex(reflect.ValueOf(st.key).Convert(cur.Type().Key()))
		}
		if !cur.IsValid() {
			return reflect.Value{}, false
		}
	}
	return cur, true
}

// kmSet replaces the leaf at steps by nv.
func kmSet(root reflect.Value, steps []kmStep, nv reflect.Value) (err error) {
	defer func() {
		if r := recover(); r != nil {
			err = fmt.Errorf("%v", r)
		}
	}()
	parent, ok := kmResolve(root, steps[:len(steps)-1])
	if !ok {
		return fmt.Errorf("path does not resolve")
	}
	for parent.Kind() == reflect.Ptr || parent.Kind() == reflect.Interface {
		parent = parent.Elem()
	}
	last := steps[len(steps)-1]
	if last.field != "" {
		f := parent.FieldByName(last.field)
		if !f.CanSet() {
			return fmt.Errorf("field %s cannot be set", last.field)
		}
		f.Set(nv.Convert(f.Type()))
		return nil
	}
	parent.SetMapIndex(reflect.ValueOf(last.key).Convert(parent.Type().Key()), nv.Convert(parent.Type().Elem()))
	return nil
}

// kmFP: fingerprint of a leaf value (to compare it across the parties' configs)
func kmFP(v reflect.Value) string {
	if !v.IsValid() {
		return "<absent>"
	}
	if (v.Kind() == reflect.Ptr || v.Kind() == reflect.Interface || v.Kind() == reflect.Slice || v.Kind() == reflect.Map) && v.IsNil() {
		return "<nil>"
	}
	switch x := v.Interface().(type) {
	case *paillier.PublicKey:
		return "N=" + x.N().Big().Text(16)
	case *pedersen.Parameters:
		return fmt.Sprintf("N=%s S=%s T=%s", x.N().Big().Text(16), x.S().Big().Text(16), x.T().Big().Text(16))
	case *paillier.SecretKey:
		return "secret:" + x.P().Big().Text(16)
	}
	if kmIsBytes(v.Type()) {
		return hex.EncodeToString(v.Bytes())
	}
	return canon(v.Interface())
}

// ---------------------------------------------------------------------------------------------
// variants of a leaf

type kmVariant struct {
	sub string // component of an opaque object ("" = the leaf itself)
	val reflect.Value
}

// kmOtherModulus: a 2048-bit modulus from the cached primes that differs from n (and, if lo != nil, exceeds lo)
func kmOtherModulus(n *big.Int, lo *big.Int) *saferith.Modulus {
	loadPrimes()
	primeMu.Lock()
	defer primeMu.Unlock()
	for i := len(primeList)/2 - 1; i >= 0; i-- {
		m := new(big.Int).Mul(primeList[2*i], primeList[2*i+1])
		if m.Cmp(n) == 0 || m.BitLen() != 2048 || (lo != nil && m.Cmp(lo) <= 0) {
			continue
		}
		return saferith.ModulusFromNat(new(saferith.Nat).SetBig(m, 2048))
	}
	return nil
}

func kmFlipBytes(b []byte) []byte {
	if len(b) == 0 {
		return []byte{1}
	}
	out := append([]byte{}, b...)
	out[len(out)-1] ^= 1
	return out
}

func kmVariants(l kmLeaf, cur reflect.Value) (vs []kmVariant, why string) {
	defer func() {
		if r := recover(); r != nil {
			vs, why = nil, fmt.Sprintf("cannot vary: %v", r)
		}
	}()
	g := curve.Secp256k1{}
	t := l.typ
	isNil := (cur.Kind() == reflect.Ptr || cur.Kind() == reflect.Interface) && cur.IsNil()
	switch {
	case t == kmTCurve:
		return nil, "single-valued (one curve)"
	case kmIsInternalOT(t), t == kmTPaiSec:
		return nil, "opaque private state"
	case t == kmTPoint, t == kmTSecpPoint:
		if isNil {
			return nil, "nil"
		}
		q := cur.Interface().(curve.Point).Add(g.NewBasePoint())
		if q.IsIdentity() {
			q = q.Add(g.NewBasePoint())
		}
		// through the encoding: an affine point that no read-only operation writes to
		b, _ := q.MarshalBinary()
		np := g.NewPoint()
		if err := np.UnmarshalBinary(b); err != nil {
			return nil, err.Error()
		}
		return []kmVariant{{"", reflect.ValueOf(np)}}, ""
	case t == kmTScalar, t == kmTSecpScal:
		if isNil {
			return nil, "nil"
		}
		one := g.NewScalar().SetNat(new(saferith.Nat).SetUint64(1))
		s := g.NewScalar().Set(cur.Interface().(curve.Scalar)).Add(one)
		if s.IsZero() {
			s = s.Add(one)
		}
		return []kmVariant{{"", reflect.ValueOf(s)}}, ""
	case t == kmTPaiPub:
		if isNil {
			return nil, "nil"
		}
		m := kmOtherModulus(cur.Interface().(*paillier.PublicKey).N().Big(), nil)
		if m == nil {
			return nil, "no other modulus available"
		}
		return []kmVariant{{"N", reflect.ValueOf(paillier.NewPublicKey(m))}}, ""
	case t == kmTPedersen:
		if isNil {
			return nil, "nil"
		}
		p := cur.Interface().(*pedersen.Parameters)
		nb, sb, tb := p.N().Big(), p.S().Big(), p.T().Big()
		nat := func(z *big.Int) *saferith.Nat { return new(saferith.Nat).SetBig(z, 2048) }
		mod := func(z *big.Int) *arith.Modulus { return arith.ModulusFromN(saferith.ModulusFromNat(nat(z))) }
		sq := func(z *big.Int) *big.Int { r := new(big.Int).Mul(z, z); return r.Mod(r, nb) }
		lo := sb
		if tb.Cmp(lo) > 0 {
			lo = tb
		}
		if m := kmOtherModulus(nb, lo); m != nil {
			vs = append(vs, kmVariant{"N", reflect.ValueOf(pedersen.New(arith.ModulusFromN(m), nat(sb), nat(tb)))})
		}
		if s2 := sq(sb); s2.Cmp(sb) != 0 {
			vs = append(vs, kmVariant{"S", reflect.ValueOf(pedersen.New(mod(nb), nat(s2), nat(tb)))})
		}
		if t2 := sq(tb); t2.Cmp(tb) != 0 {
			vs = append(vs, kmVariant{"T", reflect.ValueOf(pedersen.New(mod(nb), nat(sb), nat(t2)))})
		}
		return vs, ""
	case t == kmTTapPK:
		p, err := g.LiftX(cur.Bytes())
		if err != nil {
			return nil, err.Error()
		}
		q := p.Add(g.NewBasePoint()).(*curve.Secp256k1Point)
		return []kmVariant{{"", reflect.ValueOf(taproot.PublicKey(q.XBytes()))}}, ""
	case kmIsBytes(t):
		return []kmVariant{{"", reflect.ValueOf(kmFlipBytes(cur.Bytes()))}}, ""
	}
	switch t.Kind() {
	case reflect.Int, reflect.Int8, reflect.Int16, reflect.Int32, reflect.Int64:
		return []kmVariant{{"", reflect.ValueOf(cur.Int() + 1)}}, ""
	case reflect.Uint, reflect.Uint8, reflect.Uint16, reflect.Uint32, reflect.Uint64:
		return []kmVariant{{"", reflect.ValueOf(cur.Uint() + 1)}}, ""
	case reflect.String:
		return []kmVariant{{"", reflect.ValueOf(cur.String() + "x")}}, ""
	case reflect.Bool:
		return []kmVariant{{"", reflect.ValueOf(!cur.Bool())}}, ""
	}
	return nil, "no variant for type " + t.String()
}

// ---------------------------------------------------------------------------------------------
// protocols

type kmProto struct {
	name   string
	ids    []party.ID
	sid    []byte
	two    bool // two-party handler (ids[0] = receiver); both sides advance at once
	isCMP  bool
	thaw   func() map[party.ID]interface{}
	start  func(cfg interface{}, id party.ID, pl *pool.Pool) protocol.StartFunc
	scoped func(field string) bool // is the field a session parameter in the sense of the property statement?
}

// kmBuild creates the handlers of `only` (nil = all parties) of one session.
func kmBuild(p *kmProto, cfgs map[party.ID]interface{}, only map[party.ID]bool, seed int64, det *detReader, pl *pool.Pool) *Sim {
	s := NewSim(p.ids, rand.New(rand.NewSource(seed)), det)
	for _, id := range p.ids {
		if only != nil && !only[id] {
			continue
		}
		if p.two {
			s.AddTwoParty(id, p.start(cfgs[id], id, pl), p.sid, true)
		} else {
			s.AddMulti(id, p.start(cfgs[id], id, pl), p.sid)
		}
	}
	s.Seal()
	return s
}

// kmHonest: what the honest session A of a protocol produced.
type kmHonest struct {
	tag     []byte
	msgs    []*protocol.Message
	results map[party.ID]interface{}
	errs    []string
	leaves  []kmLeaf
	shared  map[string]bool // leaf path -> same value in every party's config
	digests []kmDigest      // CMP: the config item of every party
}

// kmDigest: Go's digest of a CMP config as a hashed item, and the model's description of the same config.
type kmDigest struct {
	what string
	goD  []byte
	goOK bool
	desc sx.V
}

func kmPointSx(p curve.Point) sx.V {
	b, err := p.MarshalBinary()
	if err != nil || len(b) != 33 {
		return sx.List(sx.Int(0), sx.Bool(false))
	}
	return sx.List(sx.Big(new(big.Int).SetBytes(b[1:])), sx.Bool(b[0] == 3))
}

// kmConfigDigest: hash.New().WriteAny(cfg) and the kind-24 description of cfg (coq/Model/Framing.v, harness/c19_kinds.go)
func kmConfigDigest(what string, cfg *cmp.Config) (d kmDigest) {
	d.what = what
	defer func() {
		if r := recover(); r != nil {
			d.goOK = false
		}
	}()
	var ents []sx.V
	for _, id := range cfg.PartyIDs() {
		pub := cfg.Public[id]
		ents = append(ents, sx.List(sx.Bytes([]byte(id)), sx.List(kmPointSx(pub.ECDSA), kmPointSx(pub.ElGamal), sx.Big(pub.Paillier.N().Big()),
			sx.Big(pub.Pedersen.N().Big()), sx.Big(pub.Pedersen.S().Big()), sx.Big(pub.Pedersen.T().Big()))))
	}
	rid := sx.List()
	if cfg.RID != nil {
		rid = sx.List(sx.Bytes([]byte(cfg.RID)))
	}
	d.desc = sx.List(sx.Int(24), sx.List(sx.List(sx.Int(int64(cfg.Threshold)), rid, sx.Bytes([]byte(cfg.ChainKey)), sx.List(ents...))))
	h := hash.New()
	d.goOK = h.WriteAny(cfg) == nil
	d.goD = h.Sum()
	return d
}

func kmRunHonest(p *kmProto, seed int64) *kmHonest {
	det := newMuxDetReader(seed)
	defer muxEnter(det)()
	cfgs := p.thaw()
	h := &kmHonest{results: map[party.ID]interface{}{}, shared: map[string]bool{}}
	// enumeration and classification on private copies, before any session touches them
	first := reflect.ValueOf(cfgs[p.ids[0]])
	kmWalk(first, first.Type(), "", "", nil, &h.leaves)
	for _, l := range h.leaves {
		if l.problem != "" && l.steps == nil {
			continue
		}
		same := true
		var fp0 string
		for i, id := range p.ids {
			v, ok := kmResolve(reflect.ValueOf(cfgs[id]), l.steps)
			fp := "<absent>"
			if ok {
				fp = kmFP(v)
			}
			if i == 0 {
				fp0 = fp
			} else if fp != fp0 {
				same = false
			}
		}
		h.shared[l.path] = same
	}
	if p.isCMP {
		for _, id := range p.ids {
			h.digests = append(h.digests, kmConfigDigest(fmt.Sprintf("%s: honest config of %s", p.name, id), cfgs[id].(*cmp.Config)))
		}
	}
	// the honest session of a CMP protocol gets a small worker pool of its own (its proofs then draw from the OS reader:
	// the bytes of this session are not reproducible, its shape and every verdict are)
	var pl *pool.Pool
	if p.isCMP {
		pl = pool.NewPool(4)
		defer pl.TearDown()
	}
	s := kmBuild(p, cfgs, nil, seed, det, pl)
	s.RunFIFO(200000)
	for _, id := range p.ids {
		n := s.Nodes[id]
		if n.H == nil {
			h.errs = append(h.errs, fmt.Sprintf("%s did not start: %v", id, n.StartErr))
			continue
		}
		h.msgs = append(h.msgs, n.Out...)
		if h.tag == nil && len(n.Out) > 0 {
			h.tag = n.Out[0].SSID
		}
		r, e := resultOf(n)
		if r == nil {
			h.errs = append(h.errs, fmt.Sprintf("%s: %s", id, e))
		}
		h.results[id] = r
	}
	return h
}

// ---------------------------------------------------------------------------------------------
// one variant

type kmReplay struct {
	Proto string `json:"protocol"`
	Path  string `json:"field_path"`
	Sub   string `json:"component,omitempty"`
	Who   string `json:"handler_of"`
	Seed  int64  `json:"seed"`
}

type kmCase struct {
	p    *kmProto
	h    *kmHonest
	leaf kmLeaf
	sub  string
	who  party.ID
	seed int64
}

type kmOut struct {
	cs       kmCase
	field    string // leaf.field + "." + sub
	outcome  string // refused | distinct | same-tag | not-covered | no-variant
	detail   string
	tagB     []byte
	cross    string // non-empty: a message of A was acceptable / changed B
	offered  int
	digest   *kmDigest
	oldValue string
	newValue string
}

func kmExec(cs kmCase) *kmOut {
	o := &kmOut{cs: cs, field: cs.leaf.field}
	if cs.sub != "" {
		o.field += "." + cs.sub
	}
	det := newMuxDetReader(cs.seed)
	defer muxEnter(det)()
	cfgs := cs.p.thaw()
	root := reflect.ValueOf(cfgs[cs.who])
	cur, ok := kmResolve(root, cs.leaf.steps)
	if !ok {
		o.outcome, o.detail = "not-covered", "the field path does not resolve in the config of "+string(cs.who)
		return o
	}
	vs, why := kmVariants(cs.leaf, cur)
	var nv *kmVariant
	for i := range vs {
		if vs[i].sub == cs.sub {
			nv = &vs[i]
		}
	}
	if nv == nil {
		o.outcome, o.detail = "no-variant", why
		return o
	}
	o.oldValue = kmFP(cur)
	if err := kmSet(root, cs.leaf.steps, nv.val); err != nil {
		o.outcome, o.detail = "not-covered", "cannot set the field: "+err.Error()
		return o
	}
	if now, ok := kmResolve(root, cs.leaf.steps); ok {
		o.newValue = kmFP(now)
	}
	if o.newValue == o.oldValue {
		o.outcome, o.detail = "not-covered", "the variant has the same value"
		return o
	}
	if cs.p.isCMP {
		d := kmConfigDigest(fmt.Sprintf("%s: config of %s with another %s", cs.p.name, cs.who, cs.leaf.path+"/"+cs.sub), cfgs[cs.who].(*cmp.Config))
		o.digest = &d
	}
	s := kmBuild(cs.p, cfgs, map[party.ID]bool{cs.who: true}, cs.seed, det, nil)
	n := s.Nodes[cs.who]
	if n.H == nil {
		o.outcome, o.detail = "refused", fmt.Sprint(n.StartErr)
		return o
	}
	if len(n.Out) > 0 {
		o.tagB = n.Out[0].SSID
	}
	o.outcome = "distinct"
	if o.tagB != nil && bytes.Equal(o.tagB, cs.h.tag) {
		o.outcome = "same-tag"
	}
	for _, m := range cs.h.msgs {
		if !m.IsFor(cs.who) {
			continue
		}
		o.offered++
		before := stateFP(n)
		can := n.H.CanAccept(m)
		msgs, pan, hung := s.call(n, func() { n.H.Accept(m) })
		after := stateFP(n)
		if can || before != after || len(msgs) > 0 || pan != "" || hung {
			o.cross = fmt.Sprintf("round-%d message of %s (to %q, broadcast=%v) from the honest session: CanAccept=%v, state changed=%v, emitted=%d, panic=%q",
				m.RoundNumber, m.From, m.To, m.Broadcast, can, before != after, len(msgs), pan)
			break
		}
	}
	return o
}

// ---------------------------------------------------------------------------------------------

func kmFreeze(v interface{}) []byte {
	var b []byte
	var err error
	if cf, ok := v.(*cmp.Config); ok {
		b, err = cf.MarshalBinary()
	} else {
		b, err = cbor.Marshal(v)
	}
	if err != nil {
		panic(fmt.Sprintf("C09: %T cannot be serialised: %v", v, err))
	}
	return b
}

func kmThaw(b []byte, into interface{}) interface{} {
	var err error
	if cf, ok := into.(*cmp.Config); ok {
		err = cf.UnmarshalBinary(b)
	} else {
		err = cbor.Unmarshal(b, into)
	}
	if err != nil {
		panic(fmt.Sprintf("C09: %T does not survive its own encoding: %v", into, err))
	}
	return into
}

// c09CMPKeygenRaw: the one CMP key generation of a C09 run (n=3, t=1, cached primes), as bytes; shared by the key-material
// cases and the abort-notice cases (c09_abort.go), whichever runs first.
var c09cmpMat struct {
	done bool
	seed int64
	raw  map[party.ID][]byte
	err  error
}

func c09CMPKeygenRaw(seed0 int64) (map[party.ID][]byte, error) {
	if c09cmpMat.done && c09cmpMat.seed == seed0 {
		return c09cmpMat.raw, c09cmpMat.err
	}
	g := curve.Secp256k1{}
	ids := idsOf("alice", "bob", "carl")
	usePrimeCache()
	det := installDetReader(seed0, 0)
	kg := SessionSpec{Name: "cmp-keygen", IDs: ids, SessionID: []byte("c09-km-kg"),
		Start: func(id party.ID) protocol.StartFunc { return cmp.Keygen(g, id, ids, 1, cmpPool) }}.build(rand.New(rand.NewSource(1)), det)
	kg.RunFIFO(100000)
	restoreRandReader()
	c09cmpMat.done, c09cmpMat.seed, c09cmpMat.raw, c09cmpMat.err = true, seed0, nil, nil
	cfgs, err := cmpConfigsOf(kg)
	if err != nil {
		c09cmpMat.err = err
		return nil, err
	}
	raw := map[party.ID][]byte{}
	for id, cf := range cfgs {
		raw[id] = kmFreeze(cf)
	}
	c09cmpMat.raw = raw
	return raw, nil
}

func (c *ctx) c09KeyMaterial(only *kmReplay) {
	g := curve.Secp256k1{}
	ids := idsOf("alice", "bob", "carl")
	msg := bytes.Repeat([]byte{9}, 32)
	seed0 := c.res.Seed*7919 + 90
	want := func(name string) bool { return only == nil || only.Proto == name }
	wantPrefix := func(pre string) bool { return only == nil || strings.HasPrefix(only.Proto, pre) }

	t0 := time.Now()
	lap := func(what string) {
		if os.Getenv("C09_TIMING") != "" {
			fmt.Fprintf(os.Stderr, "C09 key material: %-28s %.1fs\n", what, time.Since(t0).Seconds())
		}
	}
	var protos []*kmProto
	// ---- material (sequential, deterministic reader installed process-wide) ----
	if wantPrefix("cmp") {
		raw, err := c09CMPKeygenRaw(seed0)
		if err != nil {
			c.res.Note("C09 key material: CMP key generation did not complete: %v", err)
		} else {
			thaw := func() map[party.ID]interface{} {
				out := map[party.ID]interface{}{}
				for id, b := range raw {
					out[id] = kmThaw(b, cmp.EmptyConfig(g))
				}
				return out
			}
			all := func(string) bool { return true }
			protos = append(protos,
				&kmProto{name: "cmp-sign", ids: ids, sid: []byte("c09-km"), isCMP: true, thaw: thaw, scoped: all,
					start: func(cfg interface{}, id party.ID, pl *pool.Pool) protocol.StartFunc {
						return cmp.Sign(cfg.(*cmp.Config), ids, msg, pl)
					}},
				&kmProto{name: "cmp-presign", ids: ids, sid: []byte("c09-km"), isCMP: true, thaw: thaw, scoped: all,
					start: func(cfg interface{}, id party.ID, pl *pool.Pool) protocol.StartFunc {
						return cmp.Presign(cfg.(*cmp.Config), ids, pl)
					}},
				&kmProto{name: "cmp-refresh", ids: ids, sid: []byte("c09-km"), isCMP: true, thaw: thaw, scoped: all,
					start: func(cfg interface{}, id party.ID, pl *pool.Pool) protocol.StartFunc {
						return cmp.Refresh(cfg.(*cmp.Config), pl)
					}},
				// presign-online is added below, once the honest presign session has produced the presignatures
				&kmProto{name: "cmp-presign-online", ids: ids, sid: []byte("c09-km"), isCMP: true, thaw: thaw, scoped: all})
		}
	}
	if wantPrefix("frost") {
		det := installDetReader(seed0+1, 0)
		for _, tap := range []bool{false, true} {
			kg := specFrostKeygen(ids, 1, tap, []byte("c09-km-kg")).build(rand.New(rand.NewSource(1)), det)
			kg.RunFIFO(10000)
			raw := map[party.ID][]byte{}
			for id, n := range kg.Nodes {
				if r, _ := resultOf(n); r != nil {
					raw[id] = kmFreeze(r)
				}
			}
			if len(raw) != len(ids) {
				c.res.Note("C09 key material: FROST key generation (taproot=%v) did not complete", tap)
				continue
			}
			tap := tap
			thaw := func() map[party.ID]interface{} {
				out := map[party.ID]interface{}{}
				for id, b := range raw {
					if tap {
						out[id] = kmThaw(b, &frost.TaprootConfig{})
					} else {
						out[id] = kmThaw(b, frost.EmptyConfig(g))
					}
				}
				return out
			}
			thr := func(f string) bool { return f == "Threshold" }
			suffix := ""
			if tap {
				suffix = "-taproot"
			}
			protos = append(protos,
				&kmProto{name: "frost-sign" + suffix, ids: ids, sid: []byte("c09-km"), thaw: thaw, scoped: thr,
					start: func(cfg interface{}, id party.ID, pl *pool.Pool) protocol.StartFunc {
						if tap {
							return frost.SignTaproot(cfg.(*frost.TaprootConfig), ids, msg)
						}
						return frost.Sign(cfg.(*frost.Config), ids, msg)
					}},
				&kmProto{name: "frost-refresh" + suffix, ids: ids, sid: []byte("c09-km"), thaw: thaw, scoped: thr,
					start: func(cfg interface{}, id party.ID, pl *pool.Pool) protocol.StartFunc {
						if tap {
							return frost.RefreshTaproot(cfg.(*frost.TaprootConfig), ids)
						}
						return frost.Refresh(cfg.(*frost.Config), ids)
					}})
		}
		restoreRandReader()
	}
	if wantPrefix("doerner") {
		dids := idsOf("recv", "send")
		det := installDetReader(seed0+2, 0)
		kg := twoPartySim(dids, det, doerner.Keygen(g, true, dids[0], dids[1], nil), doerner.Keygen(g, false, dids[1], dids[0], nil), []byte("c09-km-kg"), true, false)
		kg.RunFIFO(1000)
		restoreRandReader()
		rr, _ := resultOf(kg.Nodes[dids[0]])
		rs, _ := resultOf(kg.Nodes[dids[1]])
		if rr == nil || rs == nil {
			c.res.Note("C09 key material: Doerner key generation did not complete")
		} else {
			rawR, rawS := kmFreeze(rr), kmFreeze(rs)
			protos = append(protos, &kmProto{name: "doerner-sign", ids: dids, sid: []byte("c09-km"), two: true,
				scoped: func(string) bool { return false },
				thaw: func() map[party.ID]interface{} {
					return map[party.ID]interface{}{dids[0]: kmThaw(rawR, doerner.EmptyConfigReceiver(g)), dids[1]: kmThaw(rawS, doerner.EmptyConfigSender(g))}
				},
				start: func(cfg interface{}, id party.ID, pl *pool.Pool) protocol.StartFunc {
					if id == dids[0] {
						return doerner.SignReceiver(cfg.(*doerner.ConfigReceiver), dids[0], dids[1], msg, nil)
					}
					return doerner.SignSender(cfg.(*doerner.ConfigSender), dids[1], dids[0], msg, nil)
				}})
		}
	}

	lap("material")
	// ---- honest sessions, in parallel ----
	installMux()
	defer restoreRandReader()
	honest := map[string]*kmHonest{}
	var mu sync.Mutex
	var wg sync.WaitGroup
	runHonest := func(i int, p *kmProto) {
		defer wg.Done()
		defer func() {
			if r := recover(); r != nil {
				mu.Lock()
				honest[p.name] = &kmHonest{errs: []string{fmt.Sprint("PANIC: ", r)}}
				mu.Unlock()
			}
		}()
		h := kmRunHonest(p, seed0+10+int64(i))
		mu.Lock()
		honest[p.name] = h
		mu.Unlock()
	}
	needPre := want("cmp-presign-online")
	for i, p := range protos {
		if p.start == nil || !(want(p.name) || (p.name == "cmp-presign" && needPre)) {
			continue
		}
		wg.Add(1)
		go runHonest(i, p)
	}
	wg.Wait()
	for i, p := range protos {
		if p.name != "cmp-presign-online" {
			continue
		}
		hp := honest["cmp-presign"]
		rawPre := map[party.ID][]byte{}
		if hp != nil {
			for id, r := range hp.results {
				if pre, ok := r.(*ecdsa.PreSignature); ok {
					rawPre[id] = kmFreeze(pre)
				}
			}
		}
		if len(rawPre) != len(ids) {
			c.res.Note("C09 key material: no presignatures (the honest presign session did not complete): cmp-presign-online is skipped")
			continue
		}
		p.start = func(cfg interface{}, id party.ID, pl *pool.Pool) protocol.StartFunc {
			pre := kmThaw(rawPre[id], ecdsa.EmptyPreSignature(g)).(*ecdsa.PreSignature)
			return cmp.PresignOnline(cfg.(*cmp.Config), pre, msg, pl)
		}
		if want(p.name) {
			wg.Add(1)
			go runHonest(i, p)
			wg.Wait()
		}
	}

	lap("honest sessions")
	// ---- the cases ----
	var cases []kmCase
	for pi, p := range protos {
		h := honest[p.name]
		if p.start == nil || !want(p.name) || h == nil {
			continue
		}
		if len(h.errs) > 0 || h.tag == nil {
			c.res.Note("C09 key material: the honest %s session did not complete (%v): skipped", p.name, h.errs)
			continue
		}
		c.res.Case("key-material/"+p.name+"/honest-session", p.name, true)
		// one representative per field in the quick tier: the per-party map entries of a field are rotated over the protocols
		seenField := map[string]int{}
		for _, l := range h.leaves {
			if l.problem != "" && l.problem != "nil" {
				c.res.Case("key-material/"+p.name+"/not-covered", p.name+"/"+l.path, false)
				c.res.Violate("correspondence", fmt.Sprintf("C09/key-material/%s/%s/not-covered", p.name, l.field),
					fmt.Sprintf("the config type has a field the harness cannot vary: %s (%s)", l.path, l.problem), c09Replay{What: "key material enumeration", A: p.name, Detail: l.path + ": " + l.problem})
				continue
			}
			if !h.shared[l.path] {
				c.res.Case("key-material/"+p.name+"/per-party-input", p.name+"/"+l.path, false)
				continue
			}
			isEntry := false
			for _, st := range l.steps {
				if st.field == "" {
					isEntry = true
				}
			}
			k := seenField[l.field]
			seenField[l.field]++
			if only != nil {
				if only.Path != l.path {
					continue
				}
			} else if !c.thorough() && isEntry && k != (pi+len(l.field))%len(p.ids) {
				continue
			}
			cur, _ := kmResolve(reflect.ValueOf(p.thaw()[p.ids[0]]), l.steps)
			vs, why := kmVariants(l, cur)
			if len(vs) == 0 {
				c.res.Case("key-material/"+p.name+"/cannot-vary("+why+")", p.name+"/"+l.path, false)
				continue
			}
			for vi, v := range vs {
				if only != nil && only.Sub != v.sub {
					continue
				}
				whos := []party.ID{p.ids[(pi+len(l.path)+vi)%len(p.ids)]}
				if c.thorough() {
					whos = p.ids
				}
				if only != nil {
					whos = []party.ID{party.ID(only.Who)}
				}
				for _, who := range whos {
					seed := seed0 + 1000 + int64(len(cases))
					if only != nil {
						seed = only.Seed
					}
					cases = append(cases, kmCase{p: p, h: h, leaf: l, sub: v.sub, who: who, seed: seed})
				}
			}
		}
	}
	outs := make([]*kmOut, len(cases))
	sem := make(chan struct{}, 12)
	for i := range cases {
		wg.Add(1)
		sem <- struct{}{}
		go func(i int) {
			defer wg.Done()
			defer func() { <-sem }()
			defer func() {
				if r := recover(); r != nil {
					outs[i] = &kmOut{cs: cases[i], field: cases[i].leaf.field, outcome: "not-covered", detail: fmt.Sprint("PANIC in the harness: ", r)}
				}
			}()
			outs[i] = kmExec(cases[i])
		}(i)
	}
	wg.Wait()

	lap(fmt.Sprintf("%d variants", len(cases)))
	// ---- report (single goroutine; the model is consulted here) ----
	checkDigest := func(d kmDigest) {
		ms, mok, err := c.modelStream([]sx.V{d.desc})
		if err != nil {
			c.res.Violate("correspondence", "C09/key-material/model-error", err.Error(), c09Replay{What: "model error", Detail: d.what})
			return
		}
		agree := mok == d.goOK && (!mok || bytes.Equal(blake64(ms), d.goD))
		c.res.Corr(agree)
		if !agree {
			c.res.Violate("correspondence", "C09/key-material/config-item-mismatch", "the bytes a CMP config contributes to the session tag differ from the model's (kind 24, c19.write)",
				c09Replay{What: "config item", Detail: d.what, A: d.desc.String()})
		}
	}
	for _, p := range protos {
		if h := honest[p.name]; h != nil && want(p.name) {
			for _, d := range h.digests {
				checkDigest(d)
			}
		}
	}
	unbound := map[string][]string{}
	for _, o := range outs {
		p := o.cs.p
		rp := c09Replay{What: "key material", A: p.name, B: fmt.Sprintf("%s with another %s (handler of %s)", p.name, o.cs.leaf.path+"/"+o.cs.sub, o.cs.who),
			KM: &kmReplay{Proto: p.name, Path: o.cs.leaf.path, Sub: o.cs.sub, Who: string(o.cs.who), Seed: o.cs.seed}}
		fp := fmt.Sprintf("%s/%s/%s/%s", p.name, o.cs.leaf.path, o.cs.sub, o.cs.who)
		base := fmt.Sprintf("C09/key-material/%s/%s", p.name, o.field)
		scoped := p.scoped(o.field)
		switch o.outcome {
		case "not-covered":
			c.res.Case("key-material/"+p.name+"/not-covered", fp, false)
			c.res.Violate("correspondence", base+"/not-covered", "the harness could not build the variant: "+o.detail, rp)
			continue
		case "no-variant":
			c.res.Case("key-material/"+p.name+"/cannot-vary", fp, false)
			continue
		case "refused":
			c.res.Case("key-material/"+p.name+"/refused-by-start", fp, true)
			c.res.Sample(6, map[string]string{"protocol": p.name, "field": o.cs.leaf.path + "/" + o.cs.sub, "outcome": "refused: " + o.detail})
			continue
		}
		if o.digest != nil {
			checkDigest(*o.digest)
		}
		rp.Detail = fmt.Sprintf("honest tag %x, variant tag %x; %d messages of the honest session offered", o.cs.h.tag, o.tagB, o.offered)
		c.res.Sample(6, map[string]string{"protocol": p.name, "field": o.cs.leaf.path + "/" + o.cs.sub, "outcome": o.outcome, "cross": o.cross})
		if !scoped {
			if o.outcome == "same-tag" || o.cross != "" {
				c.res.Case("key-material/"+p.name+"/unbound(outside-the-statement)", fp, true)
				unbound[p.name] = append(unbound[p.name], o.field)
			} else {
				c.res.Case("key-material/"+p.name+"/bound(outside-the-statement)", fp, true)
			}
			continue
		}
		c.res.Case(fmt.Sprintf("key-material/%s/%s", p.name, o.outcome), fp, true)
		if o.outcome == "same-tag" {
			c.res.Violate("property", base+"/same-tag", fmt.Sprintf("two %s sessions whose configs differ in %s have the same session tag", p.name, o.field), rp)
		}
		if o.cross != "" {
			rp.Detail += "; " + o.cross
			c.res.Violate("property", base+"/cross-accept", fmt.Sprintf("a message of a %s session is accepted by a session whose config differs in %s", p.name, o.field), rp)
		}
	}
	var names []string
	for n := range unbound {
		names = append(names, n)
	}
	sort.Strings(names)
	for _, n := range names {
		c.res.Note("C09 key material, outside the statement (which binds key material for CMP only): %s sessions whose configs differ in %v have the same tag / accept each other's messages", n, unbound[n])
	}
}
