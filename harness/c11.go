package main

// C11 -- signing nonces never repeat across contexts, even if the RNG fails.
//
// FROST (protocols/frost/sign/round1.go): sessions are run through the pump with crypto/rand.Reader replaced by a
// constant, a repeating and an honest (seeded, advancing) reader, for PAIRS of contexts that differ in exactly one of
// message / signer set / session id / taproot flag / secret share (or in nothing). Observed: (D_i, E_i) in the round-2
// broadcast of every signer present in both contexts.
//   correspondence (per session and signer):
//     * BLAKE3(model session stream, sess.new) == SSID carried by the broadcast (= r.Hash().Sum() in round 1);
//     * the model's nonce input (nonce.frost_input: KDF context, key material, keyed-hash stream) pushed through BLAKE3
//       derive-key / keyed XOF, reduced mod q and multiplied with G by the reference (ref.base_mul) gives EXACTLY the published D_i, E_i;
//     * equality pattern: commitments equal  <=>  model inputs equal.
//   property: model inputs differ but a commitment is repeated => nonce reuse (replay = the pair).
// BIP-340 (pkg/taproot/signature.go): SecretKey.Sign(reader, m) with constant / repeating / honest / nil readers;
//   R.x (first 32 bytes) is predicted from nonce.bip340_input + SHA-256 + ref.base_mul, the whole signature from ref.bip340_sign;
//   the nil reader must walk the counter (nonce.bip340_counter_aux); same pattern oracle on pairs.

import (
	"bytes"
	crand "crypto/rand"
	"crypto/sha256"
	"encoding/hex"
	"fmt"
	"io"
	"math/big"
	"math/rand"
	"sort"
	"strings"
	"sync"

	"github.com/fxamacker/cbor/v2"
	"github.com/taurusgroup/multi-party-sig/pkg/math/curve"
	"github.com/taurusgroup/multi-party-sig/pkg/party"
	"github.com/taurusgroup/multi-party-sig/pkg/protocol"
	"github.com/taurusgroup/multi-party-sig/pkg/taproot"
	"github.com/taurusgroup/multi-party-sig/protocols/frost"
	"github.com/zeebo/blake3"

	"verifharness/sx"
)

func init() { props["C11"] = runC11 }

// ---------------------------------------------------------------------------------------------
// recording wrapper around the deterministic reader: remembers what every party read

type c11Read struct {
	Party string
	Data  []byte
}

type c11RecReader struct {
	mu  sync.Mutex
	det *detReader
	log []c11Read
}

func (r *c11RecReader) Read(p []byte) (int, error) {
	n, err := r.det.Read(p)
	r.det.mu.Lock()
	cur := r.det.cur
	r.det.mu.Unlock()
	r.mu.Lock()
	r.log = append(r.log, c11Read{cur, append([]byte{}, p[:n]...)})
	r.mu.Unlock()
	return n, err
}

var c11RngNames = map[int]string{0: "honest", 1: "constant", 2: "repeating"}

// ---------------------------------------------------------------------------------------------
// contexts

type c11Key struct {
	Seed    int64 `json:"keygen_seed"`
	N       int   `json:"n"`
	T       int   `json:"t"`
	Taproot bool  `json:"taproot_keygen"`
}

type c11Ctx struct {
	Key     c11Key   `json:"key"`
	Signers []string `json:"signers"`
	Msg     string   `json:"msg_hex"`
	Sid     *string  `json:"session_id_hex"` // nil = no session id
	Taproot bool     `json:"taproot_sign"`
}

func (x c11Ctx) String() string {
	sid := "nil"
	if x.Sid != nil {
		sid = "#" + *x.Sid
	}
	return fmt.Sprintf("key(seed=%d,n=%d,t=%d,tapkg=%v) signers=%v msg=#%s sid=%s taproot=%v", x.Key.Seed, x.Key.N, x.Key.T, x.Key.Taproot, x.Signers, x.Msg, sid, x.Taproot)
}

func (x c11Ctx) sid() []byte {
	if x.Sid == nil {
		return nil
	}
	b, _ := hex.DecodeString(*x.Sid)
	if b == nil {
		b = []byte{}
	}
	return b
}
func (x c11Ctx) msg() []byte { b, _ := hex.DecodeString(x.Msg); return b }

func hexp(b []byte) *string { s := hex.EncodeToString(b); return &s }

type c11Replay struct {
	Kind    string  `json:"kind"` // frost | bip340
	Variant string  `json:"variant"`
	RNG     string  `json:"rng"`
	RngSeed int64   `json:"rng_seed"`
	A       *c11Ctx `json:"context_a,omitempty"`
	B       *c11Ctx `json:"context_b,omitempty"`
	Signer  string  `json:"signer,omitempty"`
	// bip340
	KeyA string `json:"key_a_hex,omitempty"`
	KeyB string `json:"key_b_hex,omitempty"`
	MsgA string `json:"msg_a_hex,omitempty"`
	MsgB string `json:"msg_b_hex,omitempty"`
	// frost-startfunc: ONE protocol.StartFunc value per reusing signer starts `Sessions` sessions of context_a (c11_startfunc.go)
	Sessions int      `json:"sessions,omitempty"`
	Reusers  []string `json:"reusing_signers,omitempty"`
	// what was seen
	Observed string `json:"observed,omitempty"`
	Expected string `json:"expected,omitempty"`
}

var c11AllIDs = []string{"alice", "bob", "carl", "dave", "erin"}

type c11Material struct {
	plain map[party.ID]*frost.Config
	tap   map[party.ID]*frost.TaprootConfig
}

type c11State struct {
	c            *ctx
	keys         map[c11Key]*c11Material
	hasNonce     bool
	hasRef       bool
	logged       map[string]int
	refusedNoted bool
	// startOverride: start functions created by the caller (c11_startfunc.go); signers without an entry get a fresh one
	startOverride map[string]protocol.StartFunc
}

// call: model call; only the first few calls of the nonce/session ops are logged for the vm_compute cross-check
// (elliptic-curve reference ops take seconds each under vm_compute and are cross-checked by their own property)
func (st *c11State) call(op string, arg sx.V) (sx.V, error) {
	m := st.c.m
	keep := m.MaxLogSize
	if strings.HasPrefix(op, "ref.") || st.logged[op] >= 12 {
		m.MaxLogSize = 0
	} else {
		st.logged[op]++
	}
	v, err := m.Call(op, arg)
	m.MaxLogSize = keep
	return v, err
}

// quiet: run f with model-call logging switched off
func (st *c11State) quiet(f func()) {
	keep := st.c.m.MaxLogSize
	st.c.m.MaxLogSize = 0
	defer func() { st.c.m.MaxLogSize = keep }()
	f()
}

// key material: a FROST keygen run under an honest seeded reader (different seeds give different shares)
func (st *c11State) material(k c11Key) (*c11Material, error) {
	if m, ok := st.keys[k]; ok {
		return m, nil
	}
	det := installDetReader(k.Seed*7919+int64(k.N*16+k.T), 0)
	ids := idsOf(c11AllIDs[:k.N]...)
	s := specFrostKeygen(ids, k.T, k.Taproot, []byte("c11-keygen")).build(rand.New(rand.NewSource(k.Seed)), det)
	s.RunFIFO(200000)
	restoreRandReader()
	p, t := frostConfigs(s)
	m := &c11Material{plain: p, tap: t}
	if k.Taproot {
		if len(t) != k.N {
			return nil, fmt.Errorf("taproot keygen did not complete for %+v", k)
		}
		// the same shares as plain configs (what SignTaproot itself builds), to run Sign on identical key material
		m.plain = map[party.ID]*frost.Config{}
		for id, tc := range t {
			pk, err := curve.Secp256k1{}.LiftX(tc.PublicKey)
			if err != nil {
				return nil, err
			}
			vs := map[party.ID]curve.Point{}
			for j, v := range tc.VerificationShares {
				vs[j] = v
			}
			m.plain[id] = &frost.Config{ID: tc.ID, Threshold: tc.Threshold, PrivateShare: tc.PrivateShare, PublicKey: pk, VerificationShares: party.NewPointMap(vs)}
		}
	} else if len(p) != k.N {
		return nil, fmt.Errorf("keygen did not complete for %+v", k)
	}
	st.keys[k] = m
	return m, nil
}

// ---------------------------------------------------------------------------------------------
// one FROST signing session

type c11SignerObs struct {
	D, E     []byte // published
	SSID     []byte
	Rnd      []byte // the 32 bytes read from the reader while round 1 was finalised
	Material []byte // model: KDF key material
	Stream   []byte // model: keyed-hash stream
	PD, PE   []byte // predicted from the model input
	Problem  string
}

type c11Session struct {
	Obs       map[string]*c11SignerObs
	Refused   string
	Completed bool
	SigOK     bool
	Note      string
}

type c11Bcast struct {
	D []byte `cbor:"D_i"`
	E []byte `cbor:"E_i"`
}

func (st *c11State) compressBaseMul(k *big.Int) ([]byte, error) {
	r, err := st.call("ref.base_mul", sx.Big(k))
	if err != nil {
		return nil, err
	}
	if len(r.L) != 2 {
		return nil, fmt.Errorf("k*G is the identity")
	}
	x, y := r.L[0].Z, r.L[1].Z
	out := make([]byte, 33)
	out[0] = 2 + byte(y.Bit(0))
	x.FillBytes(out[1:])
	return out, nil
}

// sample.ScalarUnit on a reader: 32 bytes, reduced mod q, retried while zero
func c11ScalarUnit(rd io.Reader) *big.Int {
	for i := 0; i < 255; i++ {
		buf := make([]byte, 32)
		if _, err := io.ReadFull(rd, buf); err != nil {
			return nil
		}
		z := new(big.Int).SetBytes(buf)
		z.Mod(z, secpQ)
		if z.Sign() != 0 {
			return z
		}
	}
	return nil
}

// predict (D,E) from the model's hash inputs, using BLAKE3 (the hash is a parameter of the theorem) and the reference curve
func (st *c11State) predictFrost(kctx string, material, stream []byte) ([]byte, []byte, error) {
	key := make([]byte, 32)
	blake3.DeriveKey(kctx, material, key)
	h, err := blake3.NewKeyed(key)
	if err != nil {
		return nil, nil, err
	}
	h.Write(stream)
	dg := h.Digest()
	d := c11ScalarUnit(dg)
	e := c11ScalarUnit(dg)
	if d == nil || e == nil {
		return nil, nil, fmt.Errorf("no scalar")
	}
	D, err := st.compressBaseMul(d)
	if err != nil {
		return nil, nil, err
	}
	E, err := st.compressBaseMul(e)
	if err != nil {
		return nil, nil, err
	}
	return D, E, nil
}

func (st *c11State) runFrost(x c11Ctx, det *detReader) (*c11Session, error) {
	mat, err := st.material(x.Key)
	if err != nil {
		return nil, err
	}
	signers := idsOf(x.Signers...)
	var sp SessionSpec
	if x.Taproot {
		if !x.Key.Taproot {
			return nil, fmt.Errorf("taproot signing needs taproot key material")
		}
		sp = specFrostSignTaproot(mat.tap, signers, x.msg(), x.sid())
	} else {
		sp = specFrostSign(mat.plain, signers, x.msg(), x.sid())
	}
	if st.startOverride != nil {
		fresh, over := sp.Start, st.startOverride
		sp.Start = func(id party.ID) protocol.StartFunc {
			if f, ok := over[string(id)]; ok {
				return f
			}
			return fresh(id)
		}
	}
	rec := &c11RecReader{det: det}
	crand.Reader = rec
	defer restoreRandReader()
	s := sp.build(rand.New(rand.NewSource(1)), det)
	out := &c11Session{Obs: map[string]*c11SignerObs{}}
	// what was read and emitted while the handlers were constructed (round 1 is finalised inside NewMultiHandler)
	for _, name := range x.Signers {
		o := &c11SignerObs{}
		out.Obs[name] = o
		n := s.Nodes[party.ID(name)]
		if n == nil {
			o.Problem = "no node"
			continue
		}
		if n.H == nil {
			o.Problem = fmt.Sprintf("handler not created: %v", n.StartErr)
			if n.StartErr != nil && !strings.HasPrefix(n.StartErr.Error(), "PANIC") {
				out.Refused = n.StartErr.Error() // the library declines these parameters (e.g. empty message): nothing to observe
			}
			continue
		}
		var reads [][]byte
		for _, r := range rec.log {
			if r.Party == name {
				reads = append(reads, r.Data)
			}
		}
		if len(reads) != 1 || len(reads[0]) != 32 {
			o.Problem = fmt.Sprintf("expected exactly one 32-byte read from the random source in round 1, saw %d reads", len(reads))
		} else {
			o.Rnd = reads[0]
		}
		found := false
		for _, m := range n.Out {
			if m.Broadcast && m.RoundNumber == 2 && !found {
				found = true
				o.SSID = m.SSID
				var b c11Bcast
				if err := cbor.Unmarshal(m.Data, &b); err != nil || len(b.D) != 33 || len(b.E) != 33 {
					o.Problem = fmt.Sprintf("cannot decode round-2 broadcast %x: %v", m.Data, err)
				} else {
					o.D, o.E = b.D, b.E
				}
			}
		}
		if !found {
			o.Problem = "no round-2 broadcast emitted"
		}
	}
	nReads := len(rec.log)
	// the rest of the session through the pump
	s.RunFIFO(100000)
	out.Completed, out.SigOK = true, true
	for _, name := range x.Signers {
		n := s.Nodes[party.ID(name)]
		r, errText := resultOf(n)
		if errText != "" {
			out.Completed = false
			out.Note = fmt.Sprintf("%s: %s", name, errText)
			continue
		}
		var pub interface{}
		if x.Taproot {
			pub = mat.tap[party.ID(name)].PublicKey
		} else {
			pub = mat.plain[party.ID(name)].PublicKey
		}
		st.quiet(func() {
			if ok, why := st.c.verifyAnySignature(pub, r, x.msg()); !ok {
				out.SigOK = false
				out.Note = fmt.Sprintf("%s: signature rejected by the reference verifier %s", name, why)
			}
		})
	}
	if len(rec.log) != nReads {
		out.Note += fmt.Sprintf(" (%d further reads of the random source after round 1)", len(rec.log)-nReads)
	}
	// model side
	for _, name := range x.Signers {
		o := out.Obs[name]
		if o.Problem != "" || !st.hasNonce {
			continue
		}
		cfg := mat.plain[party.ID(name)]
		share := scalarZ(cfg.PrivateShare)
		ids := make([][]byte, len(x.Signers))
		for i, sname := range x.Signers {
			ids[i] = []byte(sname)
		}
		proto := "frost/sign-threshold"
		if x.Taproot {
			proto = "frost/sign-threshold-taproot"
		}
		p := sessParams{Sid: x.sid(), Proto: proto, Group: true, IDs: ids, Self: []byte(name), Thr: cfg.Threshold}
		rep, err := st.call("sess.new", p.sx())
		if err != nil || len(rep.L) != 1 {
			o.Problem = fmt.Sprintf("model refuses the session parameters: %v", err)
			continue
		}
		digest := blake64(rep.L[0].B)
		okS := bytes.Equal(digest, o.SSID)
		st.c.res.Corr(okS)
		if !okS {
			st.c.res.Violate("correspondence", "C11/frost/ssid-mismatch", "session digest of the model differs from the SSID in the round-2 broadcast",
				c11Replay{Kind: "frost", Variant: "single", A: &x, Signer: name, Expected: hex.EncodeToString(digest), Observed: hex.EncodeToString(o.SSID)})
		}
		in, err := st.call("nonce.frost_input", sx.List(sx.Big(share), sx.Bytes(digest), sx.Bytes(x.msg()), sx.Bytes(o.Rnd)))
		if err != nil || len(in.L) != 1 || len(in.L[0].L) != 3 {
			o.Problem = fmt.Sprintf("nonce.frost_input: %v %s", err, in.String())
			continue
		}
		kctx, material, stream := in.L[0].L[0].B, in.L[0].L[1].B, in.L[0].L[2].B
		o.Material, o.Stream = material, stream
		if st.hasRef {
			o.PD, o.PE, err = st.predictFrost(string(kctx), material, stream)
			if err != nil {
				o.Problem = "prediction: " + err.Error()
				continue
			}
			ok := bytes.Equal(o.PD, o.D) && bytes.Equal(o.PE, o.E)
			st.c.res.Corr(ok)
			if !ok {
				st.c.res.Violate("correspondence", "C11/frost/commitment-mismatch/"+st.diagnose(string(kctx), share, digest, x.msg(), o),
					"published (D_i,E_i) differ from the commitments derived from the model's nonce input",
					c11Replay{Kind: "frost", Variant: "single", A: &x, Signer: name,
						Expected: hex.EncodeToString(o.PD) + "," + hex.EncodeToString(o.PE), Observed: hex.EncodeToString(o.D) + "," + hex.EncodeToString(o.E)})
			}
		}
	}
	return out, nil
}

// diagnose: which component would have to be dropped from the derivation to explain the published commitments
func (st *c11State) diagnose(kctx string, share *big.Int, digest, msg []byte, o *c11SignerObs) string {
	sb := make([]byte, 32)
	share.FillBytes(sb)
	cat := func(parts ...[]byte) []byte { return bytes.Join(parts, nil) }
	try := map[string][2][]byte{
		"message-dropped":    {sb, cat(digest, o.Rnd)},
		"context-dropped":    {sb, cat(msg, o.Rnd)},
		"randomness-dropped": {sb, cat(digest, msg)},
		"share-dropped":      {nil, cat(digest, msg, o.Rnd)},
		"share-zeroed":       {make([]byte, 32), cat(digest, msg, o.Rnd)},
		"only-randomness":    {make([]byte, 32), o.Rnd},
	}
	var names []string
	for n := range try {
		names = append(names, n)
	}
	sort.Strings(names)
	for _, n := range names {
		D, E, err := st.predictFrost(kctx, try[n][0], try[n][1])
		if err == nil && bytes.Equal(D, o.D) && bytes.Equal(E, o.E) {
			return n
		}
	}
	return "unexplained"
}

// ---------------------------------------------------------------------------------------------
// a pair of contexts under one reader mode

func commonSigners(a, b c11Ctx) []string {
	var out []string
	for _, x := range a.Signers {
		for _, y := range b.Signers {
			if x == y {
				out = append(out, x)
			}
		}
	}
	return out
}

func (st *c11State) frostPair(a, b c11Ctx, variant string, mode int, rngSeed int64) {
	c := st.c
	rp := c11Replay{Kind: "frost", Variant: variant, RNG: c11RngNames[mode], RngSeed: rngSeed, A: &a, B: &b}
	var sa, sb *c11Session
	var err error
	func() {
		defer func() {
			if r := recover(); r != nil {
				err = fmt.Errorf("PANIC: %v", r)
			}
		}()
		det := installDetReader(rngSeed, mode)
		sa, err = st.runFrost(a, det)
		if err != nil {
			return
		}
		if mode != 0 {
			det = installDetReader(rngSeed, mode) // a failing source: the same bytes again
		} // honest: the same source keeps advancing
		sb, err = st.runFrost(b, det)
	}()
	restoreRandReader()
	class := fmt.Sprintf("frost/%s/%s", variant, c11RngNames[mode])
	if err != nil {
		c.res.Case(class, a.String()+"|"+b.String(), false)
		c.res.Note("C11 %s: %v", class, err)
		if strings.HasPrefix(err.Error(), "PANIC") {
			c.res.Violate("property", "C11/frost/panic/"+variant, err.Error(), rp)
		}
		return
	}
	if sa.Refused != "" || sb.Refused != "" {
		c.res.Case("frost/refused-at-start", a.String()+"|"+b.String(), false)
		if !st.refusedNoted {
			st.refusedNoted = true
			c.res.Note("C11: contexts refused at start are skipped, e.g. %s%s", sa.Refused, sb.Refused)
		}
		return
	}
	for _, s := range []*c11Session{sa, sb} {
		if !s.Completed || !s.SigOK {
			c.res.Note("C11 %s: session under the %s reader: %s", class, c11RngNames[mode], s.Note)
		}
	}
	for _, name := range commonSigners(a, b) {
		oa, ob := sa.Obs[name], sb.Obs[name]
		c.res.Case(class, fmt.Sprintf("%s|%s|%s|%d|%d", a, b, name, mode, rngSeed), oa.Problem == "" && ob.Problem == "")
		if oa.Problem != "" || ob.Problem != "" {
			r := rp
			r.Signer, r.Observed = name, oa.Problem+" / "+ob.Problem
			c.res.Corr(false)
			c.res.Violate("correspondence", "C11/frost/unobservable", "round-1 randomness or round-2 broadcast not as the model expects", r)
			continue
		}
		eqD, eqE := bytes.Equal(oa.D, ob.D), bytes.Equal(oa.E, ob.E)
		r := rp
		r.Signer = name
		r.Observed = fmt.Sprintf("A: D=%x E=%x rnd=%x; B: D=%x E=%x rnd=%x", oa.D, oa.E, oa.Rnd, ob.D, ob.E, ob.Rnd)
		c.res.Sample(3, map[string]interface{}{"class": class, "a": a.String(), "b": b.String(), "signer": name, "same_commitments": eqD && eqE})
		// the property's own oracle, independent of the model: which components differ
		ctxDiffers := variant != "identical"
		sameRnd := bytes.Equal(oa.Rnd, ob.Rnd)
		if mode != 0 && !sameRnd {
			c.res.Note("C11 %s: failing reader did not repeat (harness)", class)
		}
		if (ctxDiffers || !sameRnd) && (eqD || eqE) {
			r.Expected = "different commitments (contexts differ in: " + variant + ", same random bytes: " + fmt.Sprint(sameRnd) + ")"
			c.res.Violate("property", "C11/frost/nonce-reuse/"+variant+"/"+c11RngNames[mode],
				"two signing attempts that differ in "+variant+" publish the same nonce commitment", r)
		}
		if !ctxDiffers && sameRnd && !(eqD && eqE) {
			r.Expected = "identical commitments (identical context, identical random bytes): the derivation uses an input outside the model"
			c.res.Violate("correspondence", "C11/frost/unmodelled-input/"+c11RngNames[mode], "identical inputs give different nonce commitments", r)
		}
		// the model's verdict
		if st.hasNonce {
			eqModel := bytes.Equal(oa.Material, ob.Material) && bytes.Equal(oa.Stream, ob.Stream)
			ok := eqModel == (eqD && eqE) && eqD == eqE
			c.res.Corr(ok)
			if !ok {
				r.Expected = fmt.Sprintf("model inputs equal: %v", eqModel)
				if !eqModel {
					c.res.Violate("property", "C11/frost/nonce-reuse/"+variant+"/"+c11RngNames[mode],
						"model hash inputs differ but a nonce commitment is repeated", r)
				}
				c.res.Violate("correspondence", "C11/frost/pattern/"+variant+"/"+c11RngNames[mode], "equality pattern of commitments differs from the model's", r)
			}
		}
	}
	// different signers of one session (different shares, same everything else incl. random bytes when the source fails)
	if mode != 0 && len(a.Signers) >= 2 {
		x, y := a.Signers[0], a.Signers[1]
		ox, oy := sa.Obs[x], sa.Obs[y]
		if ox.Problem == "" && oy.Problem == "" {
			c.res.Case("frost/share-intra-session/"+c11RngNames[mode], fmt.Sprintf("%s|%s|%s|%d", a, x, y, rngSeed), true)
			if (mode == 1 || bytes.Equal(ox.Rnd, oy.Rnd)) && (bytes.Equal(ox.D, oy.D) || bytes.Equal(ox.E, oy.E)) {
				r := rp
				r.Variant, r.B, r.Signer = "share-intra-session", nil, x+","+y
				c.res.Violate("property", "C11/frost/nonce-reuse/share-intra-session/"+c11RngNames[mode], "two signers with different shares publish the same commitment", r)
			}
		}
	}
}

// ---------------------------------------------------------------------------------------------
// FROST: generation of context pairs

func flipByte(b []byte, i int) []byte {
	o := append([]byte{}, b...)
	if len(o) == 0 {
		return []byte{1}
	}
	o[i%len(o)] ^= 0x01
	return o
}

type c11Variant struct {
	Name string
	B    c11Ctx
}

func (st *c11State) variantsOf(a c11Ctx, r *rand.Rand, shareSeed int64) []c11Variant {
	var vs []c11Variant
	add := func(n string, f func(x *c11Ctx)) {
		b := a
		b.Signers = append([]string{}, a.Signers...)
		f(&b)
		vs = append(vs, c11Variant{n, b})
	}
	add("identical", func(x *c11Ctx) {})
	m := a.msg()
	add("message", func(x *c11Ctx) { x.Msg = hex.EncodeToString(flipByte(m, r.Intn(len(m)+1))) })
	// the message is written without framing between two fixed-length fields: extend / shorten it by the byte the constant reader produces
	add("message", func(x *c11Ctx) { x.Msg = hex.EncodeToString(append(append([]byte{}, m...), 0x5a)) })
	if len(m) > 1 {
		add("message", func(x *c11Ctx) { x.Msg = hex.EncodeToString(m[:len(m)-1]) })
	}
	// signer set: another qualified subset that contains the first signer
	all := c11AllIDs[:a.Key.N]
	var alts [][]string
	for k := a.Key.T + 1; k <= a.Key.N; k++ {
		for _, sub := range subsetsOfSize(idsOf(all...), k) {
			var names []string
			has := false
			for _, id := range sub {
				names = append(names, string(id))
				if string(id) == a.Signers[0] {
					has = true
				}
			}
			sa := append([]string{}, a.Signers...)
			sort.Strings(sa)
			sn := append([]string{}, names...)
			sort.Strings(sn)
			if has && strings.Join(sa, ",") != strings.Join(sn, ",") {
				alts = append(alts, names)
			}
		}
	}
	if len(alts) > 0 {
		k := r.Intn(len(alts))
		add("signer-set", func(x *c11Ctx) { x.Signers = alts[k] })
		if len(alts) > 1 {
			k2 := (k + 1 + r.Intn(len(alts)-1)) % len(alts)
			add("signer-set", func(x *c11Ctx) { x.Signers = alts[k2] })
		}
	}
	// session id
	if a.Sid == nil {
		add("session-id", func(x *c11Ctx) { x.Sid = hexp([]byte{}) }) // nil vs empty
		add("session-id", func(x *c11Ctx) { x.Sid = hexp([]byte("sid")) })
	} else {
		s := a.sid()
		add("session-id", func(x *c11Ctx) { x.Sid = hexp(flipByte(s, r.Intn(len(s)+1))) })
		add("session-id", func(x *c11Ctx) { x.Sid = hexp(append(append([]byte{}, s...), 0)) })
		add("session-id", func(x *c11Ctx) { x.Sid = nil })
	}
	// protocol variant, on the same key material
	if a.Key.Taproot {
		add("taproot-flag", func(x *c11Ctx) { x.Taproot = !a.Taproot })
	}
	// another keygen: same identifiers and threshold, different shares
	add("secret-share", func(x *c11Ctx) { x.Key.Seed = shareSeed })
	return vs
}

func runC11(c *ctx) {
	c.res.Rule = "FROST sign / sign-taproot sessions through the pump under a constant, a repeating and an honest (advancing) crypto/rand.Reader, for pairs of contexts " +
		"differing in exactly one of message, signer set, session id, taproot flag, secret share (or nothing); per common signer: (D_i,E_i) of the round-2 broadcast " +
		"vs the model's nonce input pushed through BLAKE3 and the reference curve, and the equality pattern; taproot.SecretKey.Sign under constant/repeating/honest/nil readers: " +
		"R.x vs model input + SHA-256 + reference curve, whole signature vs ref.bip340_sign, pattern on pairs; non-trivial = both observations obtained; distinct by (pair, signer, reader)"
	st := &c11State{c: c, keys: map[c11Key]*c11Material{}, logged: map[string]int{}}
	defer restoreRandReader()
	// which model ops are present in this model binary
	if _, err := st.call("nonce.bip340_counter_aux", sx.Int(1)); err == nil {
		st.hasNonce = true
	} else {
		c.res.Note("model binary has no nonce.* ops (Model/DispatchNonce.v not linked into Dispatch.op_table): model comparisons skipped, property oracle only")
	}
	if _, err := st.call("ref.base_mul", sx.Int(1)); err == nil {
		st.hasRef = true
	} else {
		c.res.Note("model binary has no ref.* ops: byte-exact prediction of commitments skipped")
	}
	if c.replay != "" {
		st.replay()
		return
	}
	r := c.res.Rng
	type keyShape struct {
		n, t int
		tap  bool
	}
	shapes := []keyShape{{3, 1, false}, {3, 1, true}}
	nBase := 1
	if c.thorough() {
		shapes = []keyShape{{3, 1, false}, {3, 1, true}, {2, 1, true}, {4, 2, false}, {5, 2, true}, {3, 2, false}, {4, 1, true}}
		nBase = 4
	}
	msgLens := []int{32, 1, 31, 33, 64, 100, 2}
	seedBase := c.res.Seed * 100
	pairNo := int64(0)
	for si, sh := range shapes {
		for bi := 0; bi < nBase; bi++ {
			key := c11Key{Seed: seedBase + int64(si*10+bi), N: sh.n, T: sh.t, Taproot: sh.tap}
			// a qualified signer subset, not necessarily a prefix, in a shuffled order
			all := c11AllIDs[:sh.n]
			k := sh.t + 1 + r.Intn(sh.n-sh.t)
			if k == sh.n && sh.n > sh.t+1 && r.Intn(2) == 0 {
				k--
			}
			perm := r.Perm(sh.n)
			var signers []string
			for _, j := range perm[:k] {
				signers = append(signers, all[j])
			}
			ml := msgLens[(si+bi)%len(msgLens)]
			if bi == 0 {
				ml = 32
			}
			a := c11Ctx{Key: key, Signers: signers, Msg: hex.EncodeToString(msgOfLen(r, ml))}
			switch r.Intn(3) {
			case 0:
				a.Sid = nil
			case 1:
				a.Sid = hexp([]byte("session-1"))
			default:
				a.Sid = hexp(msgOfLen(r, 1+r.Intn(40)))
			}
			taps := []bool{false}
			if sh.tap {
				taps = []bool{true, false}
			}
			for _, tp := range taps {
				a.Taproot = tp
				for _, v := range st.variantsOf(a, r, key.Seed+5000) {
					for _, mode := range []int{1, 2, 0} {
						pairNo++
						st.frostPair(a, v.B, v.Name, mode, c.res.Seed*1000003+pairNo)
					}
				}
				// one StartFunc VALUE starting several sessions of the same context (a retry)
				pairNo = st.startFuncSuite(a, r, pairNo)
			}
		}
	}
	st.bip340(r)
}

// ---------------------------------------------------------------------------------------------
// stand-alone BIP-340 signing

type c11Src struct {
	mode int // 0 honest (advancing), 1 constant, 2 repeating, 3 nil
	st   *ctrStream
	key  [32]byte
	last []byte
}

func newC11Src(mode int, seed int64) *c11Src {
	s := &c11Src{mode: mode, key: sha256.Sum256([]byte(fmt.Sprintf("c11-bip340/%d", seed)))}
	s.st = &ctrStream{key: s.key}
	return s
}

func (s *c11Src) Read(p []byte) (int, error) {
	switch s.mode {
	case 1:
		for i := range p {
			p[i] = 0x5a
		}
	case 2:
		(&ctrStream{key: s.key}).read(p)
	default:
		s.st.read(p)
	}
	s.last = append([]byte{}, p...)
	return len(p), nil
}

var c11SrcNames = map[int]string{0: "honest", 1: "constant", 2: "repeating", 3: "nil-reader"}

type c11Sig struct {
	Sig   []byte
	Err   string
	Aux   []byte // what the reader delivered (nil for the nil reader)
	Data  []byte // model: t || P || m
	PredR []byte
}

func taggedSHA(tag string, data []byte) []byte {
	t := sha256.Sum256([]byte(tag))
	h := sha256.New()
	h.Write(t[:])
	h.Write(t[:])
	h.Write(data)
	return h.Sum(nil)
}

// pubXEven: x-only public key and parity of d*G from the reference
func (st *c11State) pubXEven(d *big.Int) ([]byte, bool, error) {
	P, err := st.compressBaseMul(d)
	if err != nil {
		return nil, false, err
	}
	return P[1:], P[0] == 2, nil
}

// predictR: R.x from the model's nonce input for aux bytes a
func (st *c11State) predictR(sk, msg, aux []byte) (data, rx []byte, err error) {
	d := new(big.Int).SetBytes(sk)
	px, even, err := st.pubXEven(d)
	if err != nil {
		return nil, nil, err
	}
	ah := taggedSHA("BIP0340/aux", aux)
	in, err := st.call("nonce.bip340_input", sx.List(sx.Big(d), sx.Bool(even), sx.Bytes(ah), sx.Bytes(px), sx.Bytes(msg)))
	if err != nil {
		return nil, nil, err
	}
	if len(in.L) != 1 || len(in.L[0].L) != 2 {
		return nil, nil, fmt.Errorf("model rejects the key")
	}
	data = in.L[0].L[1].B
	k := new(big.Int).SetBytes(taggedSHA("BIP0340/nonce", data))
	k.Mod(k, secpQ)
	if k.Sign() == 0 {
		return data, nil, fmt.Errorf("k = 0")
	}
	R, err := st.compressBaseMul(k)
	if err != nil {
		return data, nil, err
	}
	return data, R[1:], nil
}

func (st *c11State) signOnce(sk, msg []byte, src *c11Src) (out c11Sig) {
	defer func() {
		if r := recover(); r != nil {
			out.Err = fmt.Sprintf("PANIC: %v", r)
		}
	}()
	var sig taproot.Signature
	var err error
	if src.mode == 3 {
		sig, err = taproot.SecretKey(sk).Sign(nil, msg)
	} else {
		src.last = nil
		sig, err = taproot.SecretKey(sk).Sign(src, msg)
		out.Aux = src.last
	}
	if err != nil {
		out.Err = err.Error()
	}
	out.Sig = sig
	return out
}

var c11Counter int64 = -1 // value of the library's nil-reader counter after its last use, once learnt

// checkSig: correspondence of one signature with the model (R.x, and the whole signature via ref.bip340_sign)
func (st *c11State) checkSig(sk, msg []byte, mode int, s *c11Sig, rp c11Replay) {
	c := st.c
	if s.Err != "" || len(s.Sig) != 64 {
		c.res.Corr(false)
		rp.Observed = "error: " + s.Err
		if strings.HasPrefix(s.Err, "PANIC") {
			c.res.Violate("property", "C11/bip340/panic", s.Err, rp)
		} else {
			c.res.Violate("correspondence", "C11/bip340/sign-error/"+c11SrcNames[mode], "Sign fails on a valid key", rp)
		}
		return
	}
	if !st.hasNonce || !st.hasRef {
		return
	}
	aux := s.Aux
	if mode == 3 {
		// the counter is process-global: learn it at the first use, then it must advance by exactly one per call
		if c11Counter == -2 {
			return // already reported as not following the model; the pair oracle still applies
		}
		lo, hi := c11Counter+1, c11Counter+1
		if c11Counter < 0 {
			lo, hi = 1, 16
		}
		for i := lo; i <= hi; i++ {
			a, err := st.call("nonce.bip340_counter_aux", sx.Int(i))
			if err != nil {
				break
			}
			if _, rx, err := st.predictR(sk, msg, a.B); err == nil && bytes.Equal(rx, s.Sig[:32]) {
				aux = a.B
				c11Counter = i
				break
			}
		}
		if aux == nil {
			c.res.Corr(false)
			rp.Observed = fmt.Sprintf("sig=%x, counter value used by the previous nil-reader call: %d", s.Sig, c11Counter)
			c.res.Violate("correspondence", "C11/bip340/counter", "nil-reader signature is not explained by the next counter value", rp)
			c11Counter = -2
			return
		}
		s.Aux = aux
	}
	if len(aux) != 32 {
		c.res.Corr(false)
		rp.Observed = fmt.Sprintf("reader delivered %d bytes", len(aux))
		c.res.Violate("correspondence", "C11/bip340/aux-length", "Sign did not read exactly 32 bytes", rp)
		return
	}
	data, rx, err := st.predictR(sk, msg, aux)
	s.Data, s.PredR = data, rx
	ok := err == nil && bytes.Equal(rx, s.Sig[:32])
	c.res.Corr(ok)
	if !ok {
		rp.Expected, rp.Observed = hex.EncodeToString(rx), hex.EncodeToString(s.Sig[:32])
		c.res.Violate("correspondence", "C11/bip340/rx-mismatch/"+c11SrcNames[mode], "R.x differs from the value derived from the model's nonce input", rp)
	}
	if full, err := st.call("ref.bip340_sign", sx.List(sx.Bytes(sk), sx.Bytes(msg), sx.Bytes(aux))); err == nil {
		ok := len(full.L) == 1 && bytes.Equal(full.L[0].B, s.Sig)
		c.res.Corr(ok)
		if !ok {
			rp.Expected, rp.Observed = full.String(), hex.EncodeToString(s.Sig)
			c.res.Violate("correspondence", "C11/bip340/signature-mismatch/"+c11SrcNames[mode], "signature differs from the reference BIP-340 signer on the same (key, message, aux)", rp)
		}
	}
}

func (st *c11State) bipPair(skA, msgA, skB, msgB []byte, variant string, mode int, seed int64) {
	c := st.c
	rp := c11Replay{Kind: "bip340", Variant: variant, RNG: c11SrcNames[mode], RngSeed: seed,
		KeyA: hex.EncodeToString(skA), KeyB: hex.EncodeToString(skB), MsgA: hex.EncodeToString(msgA), MsgB: hex.EncodeToString(msgB)}
	src := newC11Src(mode, seed)
	a := st.signOnce(skA, msgA, src)
	st.checkSig(skA, msgA, mode, &a, rp)
	if mode == 1 || mode == 2 {
		src = newC11Src(mode, seed)
	}
	b := st.signOnce(skB, msgB, src)
	st.checkSig(skB, msgB, mode, &b, rp)
	class := fmt.Sprintf("bip340/%s/%s", variant, c11SrcNames[mode])
	ok := a.Err == "" && b.Err == "" && len(a.Sig) == 64 && len(b.Sig) == 64
	c.res.Case(class, fmt.Sprintf("%x|%x|%x|%x|%d|%d", skA, msgA, skB, msgB, mode, seed), ok)
	if !ok {
		return
	}
	c.res.Sample(6, map[string]interface{}{"class": class, "key_a": rp.KeyA, "msg_a": rp.MsgA, "key_b": rp.KeyB, "msg_b": rp.MsgB,
		"rx_a": hex.EncodeToString(a.Sig[:32]), "rx_b": hex.EncodeToString(b.Sig[:32])})
	eqR := bytes.Equal(a.Sig[:32], b.Sig[:32])
	rp.Observed = fmt.Sprintf("A: sig=%x aux=%x; B: sig=%x aux=%x", a.Sig, a.Aux, b.Sig, b.Aux)
	// property oracle without the model: the effective key is the x-only public key (d and n-d are the same BIP-340 key)
	sameKey := bytes.Equal(skA, skB) || variant == "key-negated"
	sameMsg := bytes.Equal(msgA, msgB)
	sameAux := mode == 1 || mode == 2
	expectEq := sameKey && sameMsg && sameAux
	if eqR && !expectEq {
		rp.Expected = "different R.x (" + variant + ")"
		c.res.Violate("property", "C11/bip340/nonce-reuse/"+variant+"/"+c11SrcNames[mode], "two signatures over different (key, message, randomness) share the nonce R.x", rp)
	}
	if !eqR && expectEq {
		rp.Expected = "identical R.x"
		c.res.Violate("correspondence", "C11/bip340/unmodelled-input/"+c11SrcNames[mode], "identical (key, message, aux) give different nonces", rp)
	}
	if st.hasNonce && st.hasRef && a.Data != nil && b.Data != nil {
		eqModel := bytes.Equal(a.Data, b.Data)
		c.res.Corr(eqModel == eqR)
		if eqModel != eqR {
			rp.Expected = fmt.Sprintf("model nonce data equal: %v", eqModel)
			if !eqModel {
				c.res.Violate("property", "C11/bip340/nonce-reuse/"+variant+"/"+c11SrcNames[mode], "model hash inputs differ but R.x is repeated", rp)
			}
			c.res.Violate("correspondence", "C11/bip340/pattern/"+variant+"/"+c11SrcNames[mode], "equality pattern of R.x differs from the model's", rp)
		}
	}
}

func c11ValidKey(r *rand.Rand) []byte {
	for {
		b := msgOfLen(r, 32)
		z := new(big.Int).SetBytes(b)
		if z.Sign() != 0 && z.Cmp(secpQ) < 0 {
			return b
		}
	}
}

func be32(z *big.Int) []byte { b := make([]byte, 32); z.FillBytes(b); return b }

func (st *c11State) bip340(r *rand.Rand) {
	n := 6
	if st.c.thorough() {
		n = 150
	}
	one := be32(big.NewInt(1))
	nm1 := be32(new(big.Int).Sub(secpQ, big.NewInt(1)))
	lens := []int{32, 0, 1, 31, 33, 64, 200}
	seq := int64(0)
	for i := 0; i < n; i++ {
		sk := c11ValidKey(r)
		switch i {
		case 1:
			sk = one
		case 2:
			sk = nm1
		}
		msg := msgOfLen(r, lens[i%len(lens)])
		neg := be32(new(big.Int).Sub(secpQ, new(big.Int).SetBytes(sk)))
		type pr struct {
			name   string
			sk, ms []byte
		}
		pairs := []pr{
			{"identical", sk, msg},
			{"message", sk, flipByte(msg, r.Intn(len(msg)+1))},
			{"message", sk, append(append([]byte{}, msg...), 0x5a)},
			{"key", c11ValidKey(r), msg},
			{"key-negated", neg, msg},
		}
		if len(msg) > 0 {
			pairs = append(pairs, pr{"message", sk, msg[:len(msg)-1]})
		}
		for _, p := range pairs {
			for _, mode := range []int{1, 2, 0, 3} {
				seq++
				st.bipPair(sk, msg, p.sk, p.ms, p.name, mode, st.c.res.Seed*7919+seq)
			}
		}
	}
}

// ---------------------------------------------------------------------------------------------

func (st *c11State) replay() {
	var rp c11Replay
	if err := readJSON(st.c.replay, &rp); err != nil {
		st.c.res.Note("cannot read replay: %v", err)
		return
	}
	mode := -1
	for k, v := range c11SrcNames {
		if v == rp.RNG {
			mode = k
		}
	}
	switch rp.Kind {
	case "frost":
		if rp.A == nil {
			st.c.res.Note("replay: no context")
			return
		}
		b := rp.B
		v := rp.Variant
		if b == nil {
			b, v = rp.A, "identical"
		}
		if mode < 0 || mode > 2 {
			mode = 1
		}
		st.frostPair(*rp.A, *b, v, mode, rp.RngSeed)
	case "frost-startfunc":
		if rp.A == nil {
			st.c.res.Note("replay: no context")
			return
		}
		if mode < 0 || mode > 2 {
			mode = 0
		}
		st.startFuncReuse(*rp.A, rp.Variant, rp.Reusers, rp.Sessions, mode, rp.RngSeed)
	case "bip340":
		ka, _ := hex.DecodeString(rp.KeyA)
		kb, _ := hex.DecodeString(rp.KeyB)
		ma, _ := hex.DecodeString(rp.MsgA)
		mb, _ := hex.DecodeString(rp.MsgB)
		if mode < 0 {
			mode = 1
		}
		st.bipPair(ka, ma, kb, mb, rp.Variant, mode, rp.RngSeed)
	default:
		st.c.res.Note("replay: unknown kind %q", rp.Kind)
	}
	fmt.Printf("replay: %s %s under the %s reader: %d violations\n", rp.Kind, rp.Variant, rp.RNG, len(st.c.res.Violations))
}
