package main

// c08_mixed.go -- C08, last clause, systematically: "a session in which some signer still uses pre-refresh material never
// yields a signature", on EVERY signing entry point of the library:
//
//	cmp.Sign, cmp.Presign (offline; if a mixed session completes, its presignatures are taken through the online phase),
//	cmp.PresignOnline (presignature made before the refresh and after it; stale config and/or stale presignature),
//	frost.Sign, frost.SignTaproot, doerner.SignReceiver/SignSender.
//
// Every epoch's key material is kept as BYTES (the documented encoders), exactly what a party that "forgot" a refresh would
// restore from disk; every session restores a private copy per party from these bytes (no library object is shared between
// sessions or parties). After the first and the second refresh of a history (thorough: after every refresh), for several
// signer sets (minimal prefix, minimal non-prefix, everybody) and for stale material one and two refreshes old:
//
//	exactly one signer stale (each position), all signers but one stale (each position), and (two refreshes) all but one
//	stale with the stale signers on two different old epochs.
//
// Oracle (does not use the library's verdict): no signer may obtain a signature; a returned signature is judged by the Coq
// reference verifier under the group key. An abort, a refusal to start or no completion within the schedule are all fine;
// a panic or an Accept that does not return within the watchdog is reported.
// Prediction compared with the observation ("correspondence"):
//   FROST   per-share check z_i.G = R_i + c.lambda_i.Y_i passes iff the share the signer uses matches the table entry the
//           verifier holds (C08_stale_frost_share_rejected_iff); share.G computed by the reference (ref.base_mul)
//   Doerner the two shares in use must add up to the secret key of Public (C08_doerner_refresh_preserves_key; ref.base_mul)
//   CMP     the model's framing of the config item (kind 24) of two signers differs => different session tags => every
//           message is refused (C08 config_bound_in_ssid, C09); online phase: and the presignature ids
// A case is vacuous (counted, not run) when none of the "stale" signers' material differs from its current material
// (threshold 0: every share equals the key and the refresh changes nothing -- the known finding C08/share-unchanged/t=0).

import (
	"bytes"
	"encoding/hex"
	"fmt"
	"math/big"
	"math/rand"
	"os"
	"sort"
	"strings"
	"time"

	"github.com/fxamacker/cbor/v2"
	"github.com/taurusgroup/multi-party-sig/pkg/ecdsa"
	"github.com/taurusgroup/multi-party-sig/pkg/math/curve"
	"github.com/taurusgroup/multi-party-sig/pkg/party"
	"github.com/taurusgroup/multi-party-sig/pkg/protocol"
	"github.com/taurusgroup/multi-party-sig/pkg/taproot"
	"github.com/taurusgroup/multi-party-sig/pkg/verifhook"
	"github.com/taurusgroup/multi-party-sig/protocols/cmp"
	"github.com/taurusgroup/multi-party-sig/protocols/doerner"
	"github.com/taurusgroup/multi-party-sig/protocols/frost"
	frostsign "github.com/taurusgroup/multi-party-sig/protocols/frost/sign"

	"verifharness/sx"
)

// ---------------------------------------------------------------------------------------------
// serialisation with the documented encoders

func c08Freeze(m interface{}) (b []byte, err error) {
	defer func() {
		if p := recover(); p != nil {
			err = fmt.Errorf("PANIC: %v", p)
		}
	}()
	if cf, ok := m.(*cmp.Config); ok {
		return cf.MarshalBinary()
	}
	return cbor.Marshal(m)
}

// kinds: frost | frost-taproot | cmp | doerner-receiver | doerner-sender | presignature
func c08Thaw(kind string, b []byte) (r interface{}, err error) {
	defer func() {
		if p := recover(); p != nil {
			r, err = nil, fmt.Errorf("PANIC: %v", p)
		}
	}()
	g := curve.Secp256k1{}
	switch kind {
	case "frost":
		n := frost.EmptyConfig(g)
		err, r = cbor.Unmarshal(b, n), n
	case "frost-taproot":
		n := &frost.TaprootConfig{}
		err, r = cbor.Unmarshal(b, n), n
	case "cmp":
		n := cmp.EmptyConfig(g)
		err, r = n.UnmarshalBinary(b), n
	case "doerner-receiver":
		n := doerner.EmptyConfigReceiver(g)
		err, r = cbor.Unmarshal(b, n), n
	case "doerner-sender":
		n := doerner.EmptyConfigSender(g)
		err, r = cbor.Unmarshal(b, n), n
	case "presignature":
		n := ecdsa.EmptyPreSignature(g)
		err, r = cbor.Unmarshal(b, n), n
	default:
		err = fmt.Errorf("unknown material kind %q", kind)
	}
	if err != nil {
		return nil, err
	}
	return r, nil
}

func c08IDOf(m interface{}) party.ID {
	switch cf := m.(type) {
	case *frost.Config:
		return cf.ID
	case *frost.TaprootConfig:
		return cf.ID
	case *cmp.Config:
		return cf.ID
	}
	return ""
}

// ---------------------------------------------------------------------------------------------
// the store: every epoch's material of every party, as bytes

type c08Store struct {
	Kind   string // frost | frost-taproot | cmp | doerner
	N, T   int
	IDs    []party.ID // sorted; doerner: [receiver, sender]
	Epochs []map[party.ID][]byte
	// cmp: presignatures made by an all-honest offline session with the material of one epoch, per signer set
	pres map[string]map[party.ID][]byte
	// prediction caches (reset when the key moves)
	gShare map[string][]byte // "<epoch>/<id>" -> compressed share.G by the reference
	stream map[string][]byte // cmp: "<epoch>/<id>" -> the model's framing of the config item
	seed   int64
	cases  int
	// cmp, quick tier: epochs for which no all-honest offline phase is run (each costs ~3 s); cases that need one are counted as not run
	noPresig map[int]bool
}

func (st *c08Store) kindOf(id party.ID) string {
	if st.Kind == "doerner" {
		if id == st.IDs[0] {
			return "doerner-receiver"
		}
		return "doerner-sender"
	}
	return st.Kind
}

func (st *c08Store) resetCaches() {
	st.pres, st.gShare, st.stream = map[string]map[party.ID][]byte{}, map[string][]byte{}, map[string][]byte{}
}

func newC08Store(kind string, t int, seed int64) *c08Store {
	st := &c08Store{Kind: kind, T: t, seed: seed}
	st.resetCaches()
	return st
}

// push records the material all parties hold after a keygen / refresh as a new epoch
func (st *c08Store) push(mat map[party.ID]interface{}) error {
	ep := map[party.ID][]byte{}
	var ids []party.ID
	for id, m := range mat {
		b, err := c08Freeze(m)
		if err != nil {
			return fmt.Errorf("material of %s cannot be serialised: %v", id, err)
		}
		ep[id] = b
		ids = append(ids, id)
	}
	if st.IDs == nil {
		if st.Kind == "doerner" {
			return fmt.Errorf("doerner store needs its roles set")
		}
		st.IDs = party.NewIDSlice(ids)
		st.N = len(ids)
	}
	st.Epochs = append(st.Epochs, ep)
	return nil
}

func (st *c08Store) pushList(mat []interface{}) error {
	m := map[party.ID]interface{}{}
	for _, x := range mat {
		id := c08IDOf(x)
		if id == "" {
			return fmt.Errorf("unknown key material %T", x)
		}
		m[id] = x
	}
	return st.push(m)
}

func (st *c08Store) cur() int { return len(st.Epochs) - 1 }

// derive applies the child derivation of the CURRENT epoch (adjustment scalar and new chain key as DeriveChild / DeriveBIP32
// compute them from the current group key and chain key) to EVERY epoch through the public Derive(adjust, chainKey), so that
// the old epochs stay stale material of the SAME key. (DeriveChild on an old epoch's config would not do: a FROST refresh
// replaces the chain key, so the same index leads to a different child key before and after a refresh.)
func (st *c08Store) derive(i uint32) (err error) {
	defer func() {
		if p := recover(); p != nil {
			err = fmt.Errorf("PANIC: %v", p)
		}
	}()
	m, err := c08Thaw(st.kindOf(st.IDs[0]), st.Epochs[st.cur()][st.IDs[0]])
	if err != nil {
		return err
	}
	var pub *curve.Secp256k1Point
	var chain []byte
	switch cf := m.(type) {
	case *frost.Config:
		pub, _ = cf.PublicKey.(*curve.Secp256k1Point)
		chain = cf.ChainKey
	case *frost.TaprootConfig:
		if pub, err = (curve.Secp256k1{}).LiftX(cf.PublicKey); err != nil {
			return err
		}
		chain = cf.ChainKey
	case *cmp.Config:
		pub, _ = cf.PublicPoint().(*curve.Secp256k1Point)
		chain = cf.ChainKey
	}
	if pub == nil {
		return fmt.Errorf("no derivation for %T", m)
	}
	adjust, newChain, err := verifhook.Bip32DeriveScalar(pub, chain, i)
	if err != nil {
		return err
	}
	for e, ep := range st.Epochs {
		for _, id := range st.IDs {
			m, err := c08Thaw(st.kindOf(id), ep[id])
			if err != nil {
				return err
			}
			var d interface{}
			switch cf := m.(type) {
			case *frost.Config:
				d, err = cf.Derive(adjust, newChain)
			case *frost.TaprootConfig:
				d, err = cf.Derive(adjust, newChain)
			case *cmp.Config:
				d, err = cf.Derive(adjust, newChain)
			}
			if err != nil {
				return fmt.Errorf("derive of epoch %d material of %s: %v", e, id, err)
			}
			b, err := c08Freeze(d)
			if err != nil {
				return err
			}
			ep[id] = b
		}
	}
	st.resetCaches()
	return nil
}

// groupKey: the key every signature is judged under, from the CURRENT material of the first party
// (that refresh leaves it unchanged is checked by the history oracle); returned as bytes for the replay
func (st *c08Store) groupKey() ([]byte, error) {
	id := st.IDs[0]
	m, err := c08Thaw(st.kindOf(id), st.Epochs[st.cur()][id])
	if err != nil {
		return nil, err
	}
	switch cf := m.(type) {
	case *frost.Config:
		return cf.PublicKey.MarshalBinary()
	case *frost.TaprootConfig:
		return append([]byte{}, cf.PublicKey...), nil
	case *cmp.Config:
		return cf.PublicPoint().MarshalBinary()
	case *doerner.ConfigReceiver:
		return cf.Public.MarshalBinary()
	case *doerner.ConfigSender:
		return cf.Public.MarshalBinary()
	}
	return nil, fmt.Errorf("no group key in %T", m)
}

func c08PubOf(proto string, key []byte) (interface{}, error) {
	if proto == "frost-taproot-sign" {
		return taproot.PublicKey(key), nil
	}
	p := curve.Secp256k1{}.NewPoint()
	if err := p.UnmarshalBinary(key); err != nil {
		return nil, err
	}
	return p, nil
}

func c08SetKey(S []party.ID) string {
	var sb strings.Builder
	for _, id := range S {
		sb.WriteString(hex.EncodeToString([]byte(id)))
		sb.WriteByte('.')
	}
	return sb.String()
}

// ---------------------------------------------------------------------------------------------
// one session, described completely by its replay

type c08MixReplay struct {
	Protocol   string   `json:"protocol"` // cmp-sign | cmp-presign | cmp-presign-online | frost-sign | frost-taproot-sign | doerner-sign
	Material   string   `json:"material"`
	N          int      `json:"n"`
	T          int      `json:"t"`
	Signers    []string `json:"signers"`     // readable
	SignersHex []string `json:"signers_hex"` // what the replay uses
	Who        string   `json:"which_signer"`
	What       string   `json:"what_is_stale"`
	CfgEpoch   []int    `json:"config_epoch"`                 // per signer position
	PreEpoch   []int    `json:"presignature_epoch,omitempty"` // per signer position
	Current    int      `json:"current_epoch"`
	Configs    []string `json:"configs_hex"`
	Presigs    []string `json:"presignatures_hex,omitempty"`
	GroupKey   string   `json:"group_key_hex"`
	Message    string   `json:"message_hex"`
	SessionID  string   `json:"session_id_hex"`
	Seed       int64    `json:"seed"`
	Policy     string   `json:"policy"`
	Expect     string   `json:"expect"` // no-signature | signature (controls)
	Outcome    []string `json:"outcome"`
}

type c08MixOut struct {
	valid, invalid int      // signatures returned that are valid / invalid under the reference
	presigs        int      // offline phase: signers that obtained a presignature
	panics, hangs  []string // "<id>: text"
	lines          []string
	harness        string // the harness could not run the case (not a verdict on the library)
	followUp       *c08MixOut
}

func (o *c08MixOut) anySignature() bool {
	return o.valid+o.invalid > 0 || (o.followUp != nil && o.followUp.anySignature())
}

func c08KindsFor(proto string, pos int) string {
	switch proto {
	case "frost-sign":
		return "frost"
	case "frost-taproot-sign":
		return "frost-taproot"
	case "doerner-sign":
		if pos == 0 {
			return "doerner-receiver"
		}
		return "doerner-sender"
	}
	return "cmp"
}

// c08MixRun runs the session a replay describes; everything it needs is in the replay.
func (c *ctx) c08MixRun(rp *c08MixReplay) *c08MixOut {
	out := &c08MixOut{}
	var ids []party.ID
	for _, h := range rp.SignersHex {
		b, err := hex.DecodeString(h)
		if err != nil {
			out.harness = "bad signer id in replay"
			return out
		}
		ids = append(ids, party.ID(b))
	}
	msg, _ := hex.DecodeString(rp.Message)
	sid, _ := hex.DecodeString(rp.SessionID)
	key, _ := hex.DecodeString(rp.GroupKey)
	pub, err := c08PubOf(rp.Protocol, key)
	if err != nil {
		out.harness = "group key: " + err.Error()
		return out
	}
	if len(rp.Configs) != len(ids) || (rp.Protocol == "cmp-presign-online" && len(rp.Presigs) != len(ids)) {
		out.harness = "replay has not one config (and presignature) per signer"
		return out
	}
	// a private copy of every party's material, restored from bytes
	cfg := make([]interface{}, len(ids))
	pre := make([]*ecdsa.PreSignature, len(ids))
	for i := range ids {
		b, _ := hex.DecodeString(rp.Configs[i])
		m, err := c08Thaw(c08KindsFor(rp.Protocol, i), b)
		if err != nil {
			out.harness = fmt.Sprintf("stored material of %q does not restore: %v", ids[i], err)
			return out
		}
		cfg[i] = m
		if rp.Protocol == "cmp-presign-online" {
			pb, _ := hex.DecodeString(rp.Presigs[i])
			p, err := c08Thaw("presignature", pb)
			if err != nil {
				out.harness = fmt.Sprintf("stored presignature of %q does not restore: %v", ids[i], err)
				return out
			}
			pre[i] = p.(*ecdsa.PreSignature)
		}
	}
	det := installDetReader(rp.Seed, 0)
	defer restoreRandReader()
	s := NewSim(ids, rand.New(rand.NewSource(rp.Seed)), det)
	s.AcceptTimeout = 90 * time.Second
	for i, id := range ids {
		var start protocol.StartFunc
		switch rp.Protocol {
		case "frost-sign":
			start = frost.Sign(cfg[i].(*frost.Config), ids, msg)
		case "frost-taproot-sign":
			start = frost.SignTaproot(cfg[i].(*frost.TaprootConfig), ids, msg)
		case "cmp-sign":
			start = cmp.Sign(cfg[i].(*cmp.Config), ids, msg, nil)
		case "cmp-presign":
			start = cmp.Presign(cfg[i].(*cmp.Config), ids, nil)
		case "cmp-presign-online":
			start = cmp.PresignOnline(cfg[i].(*cmp.Config), pre[i], msg, nil)
		case "doerner-sign":
			if len(ids) != 2 {
				out.harness = "doerner needs two signers"
				return out
			}
			if i == 0 {
				start = doerner.SignReceiver(cfg[0].(*doerner.ConfigReceiver), ids[0], ids[1], msg, nil)
			} else {
				start = doerner.SignSender(cfg[1].(*doerner.ConfigSender), ids[1], ids[0], msg, nil)
			}
		default:
			out.harness = "unknown protocol " + rp.Protocol
			return out
		}
		if rp.Protocol == "doerner-sign" {
			s.AddTwoParty(id, start, sid, true)
		} else {
			s.AddMulti(id, start, sid)
		}
	}
	s.Seal()
	s.RunPolicy(policyByName(rp.Policy)(s), 200000)
	// what every signer ended with
	var newPre []string
	for _, id := range ids {
		n := s.Nodes[id]
		if n.H == nil {
			out.lines = append(out.lines, fmt.Sprintf("%q: refused to start: %v", id, n.StartErr))
			if n.StartErr != nil && strings.HasPrefix(n.StartErr.Error(), "PANIC") {
				out.panics = append(out.panics, fmt.Sprintf("%q: start: %v", id, n.StartErr))
			}
			continue
		}
		for _, o := range n.Obs {
			if o.Panic != "" {
				out.panics = append(out.panics, fmt.Sprintf("%q: %s", id, o.Panic))
			}
			if o.Hung {
				out.hangs = append(out.hangs, fmt.Sprintf("%q: Accept did not return within %v", id, s.AcceptTimeout))
			}
		}
		r, e := resultOf(n)
		if strings.HasPrefix(e, recoveredPanicPrefix) {
			out.panics = append(out.panics, fmt.Sprintf("%q: %s", id, e))
		}
		switch x := r.(type) {
		case nil:
			out.lines = append(out.lines, fmt.Sprintf("%q: no result: %s", id, shortX(e, 140)))
		case *ecdsa.PreSignature:
			out.presigs++
			b, err := c08Freeze(x)
			if err == nil {
				newPre = append(newPre, hex.EncodeToString(b))
			}
			out.lines = append(out.lines, fmt.Sprintf("%q: presignature", id))
		case *ecdsa.Signature, frostsign.Signature, taproot.Signature:
			ok, why := c.verifyAnySignature(pub, r, msg)
			if ok {
				out.valid++
				out.lines = append(out.lines, fmt.Sprintf("%q: SIGNATURE, valid under the group key (reference verifier)", id))
			} else {
				out.invalid++
				out.lines = append(out.lines, fmt.Sprintf("%q: SIGNATURE returned, invalid under the group key %s", id, why))
			}
		default:
			out.lines = append(out.lines, fmt.Sprintf("%q: result of type %T", id, r))
		}
	}
	// offline phase completed by everybody: take the presignatures through the online phase with the same configs
	if rp.Protocol == "cmp-presign" && out.presigs == len(ids) && len(newPre) == len(ids) {
		f := *rp
		f.Protocol, f.Presigs, f.Seed, f.Outcome = "cmp-presign-online", newPre, rp.Seed+1, nil
		f.Message = hex.EncodeToString(bytes.Repeat([]byte{0xc8}, 32))
		out.followUp = c.c08MixRun(&f)
		for _, l := range out.followUp.lines {
			out.lines = append(out.lines, "online phase with these presignatures: "+l)
		}
		out.panics = append(out.panics, out.followUp.panics...)
		out.hangs = append(out.hangs, out.followUp.hangs...)
	}
	return out
}

// ---------------------------------------------------------------------------------------------
// predictions

func c08Compress(p sx.V) []byte {
	if len(p.L) != 2 {
		return []byte{0}
	}
	b := make([]byte, 33)
	b[0] = 2
	if p.L[1].Z.Bit(0) == 1 {
		b[0] = 3
	}
	p.L[0].Z.FillBytes(b[1:])
	return b
}

// shareG: compressed share.G of the secret share in the given epoch's material, by the reference
func (c *ctx) c08ShareG(st *c08Store, ep int, id party.ID, share *big.Int) []byte {
	k := fmt.Sprintf("%d/%x", ep, []byte(id))
	if b, ok := st.gShare[k]; ok {
		return b
	}
	g, err := c.m.Call("ref.base_mul", sx.Big(share))
	var b []byte
	if err == nil {
		b = c08Compress(g)
	}
	st.gShare[k] = b
	return b
}

func c08PointBytes(p curve.Point) []byte {
	if p == nil {
		return nil
	}
	b, err := p.MarshalBinary()
	if err != nil {
		return nil
	}
	return b
}

// c08Predict: can this session possibly sign? ("", false) when no prediction is made
func (c *ctx) c08Predict(st *c08Store, proto string, S []party.ID, cfgEp, preEp []int) (signs bool, defined bool, why string) {
	thaw := func(i int) interface{} {
		m, err := c08Thaw(st.kindOf(S[i]), st.Epochs[cfgEp[i]][S[i]])
		if err != nil {
			return nil
		}
		return m
	}
	switch proto {
	case "frost-sign", "frost-taproot-sign":
		views := make([]*shareView, len(S))
		for i := range S {
			m := thaw(i)
			if m == nil {
				return false, false, ""
			}
			v, err := viewOfResult(m)
			if err != nil {
				return false, false, ""
			}
			views[i] = v
		}
		for i := range S {
			gi := c.c08ShareG(st, cfgEp[i], S[i], views[i].Share)
			for j := range S {
				if !bytes.Equal(gi, c08PointBytes(views[j].Table[S[i]])) {
					return false, true, fmt.Sprintf("share.G of signer %d differs from the table entry signer %d holds for it", i, j)
				}
			}
		}
		return true, true, "every signer's share matches the table entry every other signer holds"
	case "doerner-sign":
		r, ok1 := thaw(0).(*doerner.ConfigReceiver)
		s, ok2 := thaw(1).(*doerner.ConfigSender)
		if !ok1 || !ok2 {
			return false, false, ""
		}
		sum := new(big.Int).Add(scalarZ(r.SecretShare), scalarZ(s.SecretShare))
		sum.Mod(sum, secpQ)
		g, err := c.m.Call("ref.base_mul", sx.Big(sum))
		if err != nil {
			return false, false, ""
		}
		if !bytes.Equal(c08Compress(g), c08PointBytes(r.Public)) || !bytes.Equal(c08Compress(g), c08PointBytes(s.Public)) {
			return false, true, "the two shares in use do not add up to the secret key of Public"
		}
		return true, true, "the two shares add up to the key"
	case "cmp-sign", "cmp-presign", "cmp-presign-online":
		var first []byte
		for i := range S {
			k := fmt.Sprintf("%d/%x", cfgEp[i], []byte(S[i]))
			ms, ok := st.stream[k]
			if !ok {
				cf, isCfg := thaw(i).(*cmp.Config)
				if !isCfg {
					return false, false, ""
				}
				d := kmConfigDigest("c08", cf)
				b, mok, err := c.modelStream([]sx.V{d.desc})
				if err != nil || !mok {
					return false, false, ""
				}
				ms = b
				st.stream[k] = ms
			}
			if i == 0 {
				first = ms
			} else if !bytes.Equal(first, ms) {
				return false, true, fmt.Sprintf("the config item of signer %d is framed differently from signer 0's: different session tags", i)
			}
		}
		if proto == "cmp-presign-online" {
			for i := range S {
				if preEp[i] != preEp[0] {
					return false, true, "presignatures of different offline sessions have different ids: different session tags"
				}
			}
		}
		return false, false, "same session tag everywhere"
	}
	return false, false, ""
}

// ---------------------------------------------------------------------------------------------
// cmp: presignatures of an all-honest offline session run with the material of ONE epoch (for the stale epochs this is "a
// presignature made before the refresh")

func (c *ctx) c08Presigs(st *c08Store, ep int, S []party.ID) (map[party.ID][]byte, string) {
	k := fmt.Sprintf("%d/%s", ep, c08SetKey(S))
	if st.noPresig[ep] {
		return nil, "not-run"
	}
	if p, ok := st.pres[k]; ok {
		if p == nil {
			return nil, "offline phase failed before"
		}
		return p, ""
	}
	st.pres[k] = nil
	cfgs := map[party.ID]*cmp.Config{}
	for _, id := range S {
		m, err := c08Thaw("cmp", st.Epochs[ep][id])
		if err != nil {
			return nil, err.Error()
		}
		cfgs[id] = m.(*cmp.Config)
	}
	t0 := time.Now()
	s := runToEnd(specCMPPresign(cfgs, S, []byte(fmt.Sprintf("c08pre-%d", ep))), st.seed+int64(ep), "fifo")
	if os.Getenv("VERIF_TIMING") != "" {
		fmt.Fprintf(os.Stderr, "c08 honest offline phase epoch %d %d signers: %v\n", ep, len(S), time.Since(t0))
	}
	out := map[party.ID][]byte{}
	for _, id := range S {
		r, e := resultOf(s.Nodes[id])
		p, ok := r.(*ecdsa.PreSignature)
		if !ok {
			return nil, fmt.Sprintf("all-honest offline phase with epoch-%d material did not complete at %q: %s", ep, id, e)
		}
		b, err := c08Freeze(p)
		if err != nil {
			return nil, err.Error()
		}
		out[id] = b
	}
	st.pres[k] = out
	return out, ""
}

// ---------------------------------------------------------------------------------------------
// enumeration

type c08Assign struct {
	who, what string
	cfgEp     []int
	preEp     []int // nil unless online
	expect    string
	observe   bool // informative only (no verdict)
}

// c08Assignments: every way of giving one signer / all but one signer stale material, for the stale depths available
// allStale: also the session in which EVERY signer is on the same old epoch (not a mixed session: observed, no verdict)
func c08Assignments(proto string, k, cur int, depths []int, allStale bool) []c08Assign {
	var out []c08Assign
	fill := func(v int) []int {
		a := make([]int, k)
		for i := range a {
			a[i] = v
		}
		return a
	}
	type whoSet struct {
		who   string
		stale []bool
	}
	var whos []whoSet
	for p := 0; p < k; p++ {
		s := make([]bool, k)
		s[p] = true
		whos = append(whos, whoSet{fmt.Sprintf("pos%d", p), s})
	}
	if k > 2 {
		for p := 0; p < k; p++ {
			s := make([]bool, k)
			for i := range s {
				s[i] = i != p
			}
			whos = append(whos, whoSet{fmt.Sprintf("all-but-pos%d", p), s})
		}
	}
	mix := func(w whoSet, fresh, stale int) []int {
		a := fill(fresh)
		for i, s := range w.stale {
			if s {
				a[i] = stale
			}
		}
		return a
	}
	for _, d := range depths {
		old := cur - d
		if old < 0 {
			continue
		}
		for _, w := range whos {
			if proto != "cmp-presign-online" {
				out = append(out, c08Assign{who: w.who, what: fmt.Sprintf("config-%dback", d), cfgEp: mix(w, cur, old), expect: "no-signature"})
				continue
			}
			// presignature made BEFORE the refresh (by everybody, with the old material), stale config at `who`
			out = append(out, c08Assign{who: w.who, what: fmt.Sprintf("config-%dback+all-presignatures-%dback", d, d), cfgEp: mix(w, cur, old), preEp: fill(old), expect: "no-signature"})
			// presignature made AFTER the refresh, stale config at `who`
			out = append(out, c08Assign{who: w.who, what: fmt.Sprintf("config-%dback", d), cfgEp: mix(w, cur, old), preEp: fill(cur), expect: "no-signature"})
			// stale presignature at `who`
			out = append(out, c08Assign{who: w.who, what: fmt.Sprintf("presignature-%dback", d), cfgEp: fill(cur), preEp: mix(w, cur, old), expect: "no-signature"})
			// both
			out = append(out, c08Assign{who: w.who, what: fmt.Sprintf("config+presignature-%dback", d), cfgEp: mix(w, cur, old), preEp: mix(w, cur, old), expect: "no-signature"})
		}
		if allStale && proto != "cmp-presign-online" {
			out = append(out, c08Assign{who: "everybody", what: fmt.Sprintf("config-%dback", d), cfgEp: fill(old), observe: true})
		}
		if proto == "cmp-presign-online" {
			// not a mixed session (every signer: refreshed config, presignature made before the refresh): observed, no verdict
			out = append(out, c08Assign{who: "everybody", what: fmt.Sprintf("all-presignatures-%dback", d), cfgEp: fill(cur), preEp: fill(old), observe: true})
		}
	}
	// two old epochs in one session: all but one stale, the stale signers alternate between one and two refreshes back
	if k > 2 && cur >= 2 && len(depths) > 1 {
		for p := 0; p < k; p++ {
			a := fill(cur)
			n := 0
			for i := range a {
				if i != p {
					a[i] = cur - 1 - n%2
					n++
				}
			}
			as := c08Assign{who: fmt.Sprintf("all-but-pos%d", p), what: "config-1and2back", cfgEp: a, expect: "no-signature"}
			if proto == "cmp-presign-online" {
				as.preEp = fill(cur)
			}
			out = append(out, as)
		}
	}
	return out
}

func c08WhoKind(who string) string {
	switch {
	case strings.HasPrefix(who, "pos"):
		return "one-stale"
	case strings.HasPrefix(who, "all-but"):
		return "all-but-one-stale"
	}
	return who
}

// what was seen on sessions that carry no verdict (key -> number of sessions)
var c08Observed = map[string]int{}

// c08SignerSets: minimal prefix, minimal non-prefix, everybody
func c08SignerSets(ids []party.ID, t int) [][]party.ID {
	n := len(ids)
	sets := [][]party.ID{append([]party.ID{}, ids[:t+1]...)}
	if n > t+1 {
		sets = append(sets, append([]party.ID{}, ids[n-t-1:]...))
		if t+1 >= 2 && n >= 3 {
			// first and last t: not contiguous
			nc := append([]party.ID{ids[0]}, ids[n-t:]...)
			if c08SetKey(nc) != c08SetKey(sets[0]) && c08SetKey(nc) != c08SetKey(sets[1]) {
				sets = append(sets, nc)
			}
		}
		sets = append(sets, append([]party.ID{}, ids...))
	}
	return sets
}

func c08Readable(S []party.ID) (r, h []string) {
	for _, id := range S {
		r = append(r, fmt.Sprintf("%q", string(id)))
		h = append(h, hex.EncodeToString([]byte(id)))
	}
	return
}

// c08MixedEpoch: all mixed-epoch signing sessions for the current epoch of the store. protos: entry points to exercise.
// sample > 0: for signer sets of more than two signers, only `sample` of the assignments (chosen by the case seed) are run
func (c *ctx) c08MixedEpoch(st *c08Store, protos []string, sets map[string][][]party.ID, depths []int, sample int) {
	cur := st.cur()
	if cur < 1 {
		return
	}
	key, err := st.groupKey()
	if err != nil {
		c.res.Violate("property", "C08/"+st.Kind+"/mixed-epoch/material-does-not-restore", err.Error(), nil)
		return
	}
	pols := []string{"fifo", "lifo", "random", "latest-first"}
	for _, proto := range protos {
		for _, S := range sets[proto] {
			assigns := c08Assignments(proto, len(S), cur, depths, c.thorough() || !strings.HasPrefix(proto, "cmp"))
			if sample > 0 && len(S) > 2 && len(assigns) > sample {
				pr := rand.New(rand.NewSource(st.seed*7919 + int64(st.cases)))
				pr.Shuffle(len(assigns), func(i, j int) { assigns[i], assigns[j] = assigns[j], assigns[i] })
				// one of each kind first (one signer stale, all but one stale, ...), then the rest in shuffled order
				var head, tail []c08Assign
				seenKind := map[string]bool{}
				for _, a := range assigns {
					if k := c08WhoKind(a.who) + "/" + strings.SplitN(a.what, "-", 2)[0]; !a.observe && !seenKind[k] {
						seenKind[k] = true
						head = append(head, a)
					} else {
						tail = append(tail, a)
					}
				}
				pr.Shuffle(len(head), func(i, j int) { head[i], head[j] = head[j], head[i] })
				assigns = append(head, tail...)
				c.res.Case("mixed-epoch/not-sampled-in-this-tier/"+proto, fmt.Sprintf("%s/%d/%d", proto, cur, st.seed), false)
				assigns = assigns[:sample]
			}
			for _, as := range assigns {
				st.cases++
				seed := st.seed*1000003 + int64(st.cases)
				rd, hx := c08Readable(S)
				rp := &c08MixReplay{Protocol: proto, Material: st.Kind, N: st.N, T: st.T, Signers: rd, SignersHex: hx, Who: as.who, What: as.what,
					CfgEpoch: as.cfgEp, PreEpoch: as.preEp, Current: cur, GroupKey: hex.EncodeToString(key), SessionID: hex.EncodeToString([]byte("c08-mixed-epoch")),
					Seed: seed, Policy: pols[st.cases%len(pols)], Expect: as.expect}
				if proto == "doerner-sign" {
					rp.Policy = "fifo"
				}
				mr := rand.New(rand.NewSource(seed))
				rp.Message = hex.EncodeToString(msgOfLen(mr, 32))
				// vacuous? (no "stale" signer's material differs from its current material)
				differs := false
				for i, id := range S {
					rp.Configs = append(rp.Configs, hex.EncodeToString(st.Epochs[as.cfgEp[i]][id]))
					if !bytes.Equal(st.Epochs[as.cfgEp[i]][id], st.Epochs[cur][id]) {
						differs = true
					}
				}
				harnessProblem := ""
				if as.preEp != nil {
					for i, id := range S {
						ps, et := c.c08Presigs(st, as.preEp[i], S)
						if et != "" {
							harnessProblem = et
							break
						}
						rp.Presigs = append(rp.Presigs, hex.EncodeToString(ps[id]))
						if as.preEp[i] != cur {
							differs = true
						}
					}
				}
				class := fmt.Sprintf("mixed-epoch/%s/%s/%s", proto, c08WhoKind(as.who), as.what)
				fp := fmt.Sprintf("%s/%s/n=%d/t=%d/%v/%s/%s/epoch=%d/%d", proto, st.Kind, st.N, st.T, hx, as.who, as.what, cur, st.seed)
				if harnessProblem == "not-run" {
					c.res.Case("mixed-epoch/not-run-in-this-tier/"+proto, fp, false)
					continue
				}
				if harnessProblem != "" {
					// the all-honest offline phase with one epoch's material must complete: "signing with refreshed material succeeds"
					c.res.Violate("property", "C08/cmp-presign/unmixed-material/offline-phase-incomplete", harnessProblem, rp)
					continue
				}
				if !differs && !as.observe {
					c.res.Case("mixed-epoch/vacuous/"+st.Kind+fmt.Sprintf("/t=%d", st.T), fp, false)
					continue
				}
				t0 := time.Now()
				out := c.c08MixRun(rp)
				if os.Getenv("VERIF_TIMING") != "" {
					fmt.Fprintf(os.Stderr, "c08 mixed %s %s %s %v: %v\n", proto, as.who, as.what, rd, time.Since(t0))
				}
				rp.Outcome = out.lines
				if out.harness != "" {
					c.res.Violate("property", "C08/"+proto+"/mixed-epoch/material-does-not-restore", out.harness, rp)
					continue
				}
				c.res.Case(class, fp, true)
				c.res.Sample(6, map[string]interface{}{"protocol": proto, "n": st.N, "t": st.T, "signers": rd, "which_signer": as.who, "what_is_stale": as.what,
					"config_epoch": as.cfgEp, "presignature_epoch": as.preEp, "outcome": out.lines})
				if as.observe {
					what := "every signer on a refreshed config and a presignature made before the refresh(es)"
					if as.preEp == nil {
						what = "every signer on the same pre-refresh material (an old epoch is still a consistent sharing of the key)"
					}
					got := "no signature"
					if proto == "cmp-presign" {
						got = fmt.Sprintf("presignature at %d of %d signers", out.presigs, len(S))
						if out.followUp != nil && out.followUp.valid > 0 {
							got += ", online phase with them: signature, valid under the group key"
						} else if out.followUp != nil {
							got += ", online phase with them: no valid signature"
						}
					} else if out.valid > 0 {
						got = "signature, valid under the group key"
					} else if out.invalid > 0 {
						got = "signature, INVALID under the current group key"
					}
					c08Observed[fmt.Sprintf("%s, %s [%s]: %s", proto, what, as.what, got)]++
					continue
				}
				// prediction vs observation
				if signs, defined, why := c.c08Predict(st, proto, S, as.cfgEp, as.preEp); defined {
					c.res.Corr(signs == out.anySignature())
					if signs != out.anySignature() {
						c.res.Violate("correspondence", fmt.Sprintf("C08/%s/mixed-epoch/prediction", proto),
							fmt.Sprintf("model predicts signature=%v (%s), the implementation gave signature=%v", signs, why, out.anySignature()), rp)
					}
					if signs {
						// the refresh did not move this signer's share (share-unchanged oracle reports that); nothing is stale here
						continue
					}
				}
				base := fmt.Sprintf("C08/%s/mixed-epoch/%s/%s/", proto, as.who, as.what)
				desc := fmt.Sprintf("%s, n=%d t=%d, signers %v, config epochs %v (current %d)", proto, st.N, st.T, rd, as.cfgEp, cur)
				if as.preEp != nil {
					desc += fmt.Sprintf(", presignature epochs %v", as.preEp)
				}
				desc += ": " + strings.Join(out.lines, "; ")
				if out.valid > 0 || (out.followUp != nil && out.followUp.valid > 0) {
					c.res.Violate("property", base+"signature-produced", "a session in which a signer uses pre-refresh material returned a signature that verifies under the group key: "+desc, rp)
				} else if out.anySignature() {
					c.res.Violate("property", base+"invalid-signature-returned", "a session in which a signer uses pre-refresh material returned a signature (invalid under the group key): "+desc, rp)
				}
				if len(out.panics) > 0 {
					c.res.Violate("property", base+"panic", "panic in a mixed-epoch session: "+strings.Join(out.panics, "; ")+" -- "+desc, rp)
				}
				if len(out.hangs) > 0 {
					c.res.Violate("property", base+"hang", "a mixed-epoch session hangs: "+strings.Join(out.hangs, "; ")+" -- "+desc, rp)
				}
				if rp.Protocol == "cmp-presign" && out.followUp != nil {
					c08Observed["cmp-presign: a mixed-epoch offline phase completed at every signer (its presignatures were then taken through the online phase)"]++
				}
			}
		}
	}
}

// c08Control: the same entry point with everybody on the current epoch must sign (otherwise the negative results mean nothing)
func (c *ctx) c08Control(st *c08Store, proto string, S []party.ID) {
	cur := st.cur()
	key, err := st.groupKey()
	if err != nil {
		return
	}
	st.cases++
	rd, hx := c08Readable(S)
	fillCur := make([]int, len(S))
	for i := range fillCur {
		fillCur[i] = cur
	}
	rp := &c08MixReplay{Protocol: proto, Material: st.Kind, N: st.N, T: st.T, Signers: rd, SignersHex: hx, Who: "nobody", What: "control", CfgEpoch: fillCur, Current: cur,
		GroupKey: hex.EncodeToString(key), SessionID: hex.EncodeToString([]byte("c08-control")), Seed: st.seed*1000003 + int64(st.cases), Policy: "fifo", Expect: "signature"}
	rp.Message = hex.EncodeToString(msgOfLen(rand.New(rand.NewSource(rp.Seed)), 32))
	for _, id := range S {
		rp.Configs = append(rp.Configs, hex.EncodeToString(st.Epochs[cur][id]))
	}
	if proto == "cmp-presign-online" {
		rp.PreEpoch = fillCur
		ps, et := c.c08Presigs(st, cur, S)
		if et == "not-run" {
			return
		}
		if et != "" {
			c.res.Violate("property", "C08/cmp-presign/unmixed-material/offline-phase-incomplete", et, rp)
			return
		}
		for _, id := range S {
			rp.Presigs = append(rp.Presigs, hex.EncodeToString(ps[id]))
		}
	}
	out := c.c08MixRun(rp)
	rp.Outcome = out.lines
	c.res.Case("mixed-epoch/control/"+proto, fmt.Sprintf("control/%s/%s/%v/%d/%d", proto, st.Kind, hx, cur, st.seed), true)
	want := len(S)
	if proto == "doerner-sign" {
		want = 1 // at least the receiver
	}
	c.res.Corr(out.valid >= want)
	if out.harness != "" || out.valid < want || out.invalid > 0 || len(out.panics) > 0 {
		c.res.Violate("property", "C08/"+proto+"/refreshed-material/no-signature",
			fmt.Sprintf("signing with everybody on refreshed material (epoch %d) does not give every signer a valid signature: %s %s %v", cur, out.harness, strings.Join(out.lines, "; "), out.panics), rp)
	}
}

// c08FlushObserved writes what was observed on the sessions that are not mixed (no verdict) as notes, deterministically
func (c *ctx) c08FlushObserved() {
	var ks []string
	for k := range c08Observed {
		ks = append(ks, k)
	}
	sort.Strings(ks)
	for _, k := range ks {
		c.res.Note("observed (no verdict): %s [%d session(s)]", k, c08Observed[k])
	}
}

// c08ReplayMixed re-runs exactly one recorded mixed-epoch session
func (c *ctx) c08ReplayMixed(rp *c08MixReplay) {
	out := c.c08MixRun(rp)
	c.res.Case("replay/"+rp.Protocol, "replay", true)
	c.res.Sample(1, map[string]interface{}{"protocol": rp.Protocol, "which_signer": rp.Who, "what_is_stale": rp.What, "outcome": out.lines})
	if out.harness != "" {
		c.res.Violate("property", "C08/"+rp.Protocol+"/mixed-epoch/material-does-not-restore", out.harness, rp)
		return
	}
	rp.Outcome = out.lines
	base := fmt.Sprintf("C08/%s/mixed-epoch/%s/%s/", rp.Protocol, rp.Who, rp.What)
	if rp.Expect == "signature" {
		if out.valid == 0 {
			c.res.Violate("property", "C08/"+rp.Protocol+"/refreshed-material/no-signature", strings.Join(out.lines, "; "), rp)
		}
		return
	}
	if rp.Expect == "" {
		c.res.Note("replayed session (no verdict): %s", strings.Join(out.lines, "; "))
		return
	}
	if out.valid > 0 || (out.followUp != nil && out.followUp.valid > 0) {
		c.res.Violate("property", base+"signature-produced", "replayed: "+strings.Join(out.lines, "; "), rp)
	} else if out.anySignature() {
		c.res.Violate("property", base+"invalid-signature-returned", "replayed: "+strings.Join(out.lines, "; "), rp)
	}
	if len(out.panics) > 0 {
		c.res.Violate("property", base+"panic", strings.Join(out.panics, "; "), rp)
	}
	if len(out.hangs) > 0 {
		c.res.Violate("property", base+"hang", strings.Join(out.hangs, "; "), rp)
	}
}

// c08MixedHistory: called by the history driver after a refresh has been recorded as a new epoch of the store
func (c *ctx) c08MixedHistory(st *c08Store) {
	depths := []int{1, 2}
	switch st.Kind {
	case "frost", "frost-taproot":
		proto := "frost-sign"
		if st.Kind == "frost-taproot" {
			proto = "frost-taproot-sign"
		}
		sets := c08SignerSets(st.IDs, st.T)
		c.c08Control(st, proto, sets[len(sets)-1])
		c.c08MixedEpoch(st, []string{proto}, map[string][][]party.ID{proto: sets}, depths, 0)
	case "cmp":
		if len(st.IDs) < 3 {
			return
		}
		ids := st.IDs
		nonPrefix := []party.ID{ids[0], ids[2]}
		sets := map[string][][]party.ID{
			"cmp-sign":           {nonPrefix, ids},
			"cmp-presign":        {nonPrefix, ids},
			"cmp-presign-online": {nonPrefix},
		}
		if c.thorough() {
			sets["cmp-presign-online"] = [][]party.ID{nonPrefix, {ids[1], ids[2]}, ids}
			c.c08Control(st, "cmp-sign", ids)
		} else if st.cur() >= 2 {
			// quick tier, second refresh: the online phase is run with the presignatures of the two old epochs only
			// (stale config + presignature made before the refresh); a presignature of the newest epoch is not made
			st.noPresig = map[int]bool{st.cur(): true}
		}
		for _, S := range sets["cmp-presign-online"] {
			c.c08Control(st, "cmp-presign-online", S)
		}
		// quick tier: the three-signer set is sampled (each session costs a full first round of three parties, ~1 s)
		sample := 2
		if st.cur() >= 2 {
			sample = 1
		}
		if c.thorough() {
			sample = 0
		}
		c.c08MixedEpoch(st, []string{"cmp-sign", "cmp-presign", "cmp-presign-online"}, sets, depths, sample)
	}
}
