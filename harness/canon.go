package main

import (
	"encoding"
	"encoding/hex"
	"fmt"
	"reflect"
	"sort"
	"strings"
)

// canon renders any protocol result as a canonical string: maps sorted by key, pointers followed,
// values implementing encoding.BinaryMarshaler printed as their bytes (scalars, points, keys).
func canon(x interface{}) string {
	var sb strings.Builder
	canonV(&sb, reflect.ValueOf(x), 0)
	return sb.String()
}

func canonV(sb *strings.Builder, v reflect.Value, depth int) {
	if depth > 12 {
		sb.WriteString("…")
		return
	}
	if !v.IsValid() {
		sb.WriteString("nil")
		return
	}
	if v.CanInterface() && (v.Kind() != reflect.Ptr && v.Kind() != reflect.Interface || !v.IsNil()) {
		if bm, ok := v.Interface().(encoding.BinaryMarshaler); ok && v.Kind() != reflect.Map {
			var b []byte
			var err error
			func() {
				defer func() {
					if recover() != nil {
						err = fmt.Errorf("panic")
					}
				}()
				b, err = bm.MarshalBinary()
			}()
			if err == nil {
				// types whose MarshalBinary is CBOR of maps are not canonical: only use for short fixed encodings
				if len(b) <= 600 && !strings.Contains(v.Type().String(), "Config") && !strings.Contains(v.Type().String(), "PointMap") {
					sb.WriteString(v.Type().String() + ":" + hex.EncodeToString(b))
					return
				}
			}
		}
	}
	switch v.Kind() {
	case reflect.Ptr, reflect.Interface:
		if v.IsNil() {
			sb.WriteString("nil")
			return
		}
		canonV(sb, v.Elem(), depth+1)
	case reflect.Struct:
		sb.WriteString(v.Type().Name() + "{")
		for i := 0; i < v.NumField(); i++ {
			f := v.Type().Field(i)
			if f.Type.Kind() == reflect.Func || f.Type.Kind() == reflect.Chan || strings.Contains(f.Type.String(), "sync.") {
				continue
			}
			sb.WriteString(f.Name + "=")
			canonV(sb, v.Field(i), depth+1)
			sb.WriteString(";")
		}
		sb.WriteString("}")
	case reflect.Map:
		type kv struct{ k, v string }
		var items []kv
		it := v.MapRange()
		for it.Next() {
			var kb, vb strings.Builder
			canonV(&kb, it.Key(), depth+1)
			canonV(&vb, it.Value(), depth+1)
			items = append(items, kv{kb.String(), vb.String()})
		}
		sort.Slice(items, func(i, j int) bool { return items[i].k < items[j].k })
		sb.WriteString("map[")
		for _, e := range items {
			sb.WriteString(e.k + ":" + e.v + ",")
		}
		sb.WriteString("]")
	case reflect.Slice, reflect.Array:
		if v.Kind() == reflect.Slice && v.IsNil() {
			sb.WriteString("nil[]")
			return
		}
		if v.Type().Elem().Kind() == reflect.Uint8 {
			b := make([]byte, v.Len())
			for i := range b {
				b[i] = byte(v.Index(i).Uint())
			}
			sb.WriteString("#" + hex.EncodeToString(b))
			return
		}
		sb.WriteString("[")
		for i := 0; i < v.Len(); i++ {
			canonV(sb, v.Index(i), depth+1)
			sb.WriteString(",")
		}
		sb.WriteString("]")
	case reflect.String:
		fmt.Fprintf(sb, "%q", v.String())
	case reflect.Bool:
		fmt.Fprintf(sb, "%v", v.Bool())
	case reflect.Int, reflect.Int8, reflect.Int16, reflect.Int32, reflect.Int64:
		fmt.Fprintf(sb, "%d", v.Int())
	case reflect.Uint, reflect.Uint8, reflect.Uint16, reflect.Uint32, reflect.Uint64, reflect.Uintptr:
		fmt.Fprintf(sb, "%d", v.Uint())
	default:
		fmt.Fprintf(sb, "<%s>", v.Kind())
	}
}
