package main

// C12: the independent side -- math/big oracles for Paillier, operand classification (stable bucket names),
// deterministic randomness tape, small helpers. Nothing in this file calls into pkg/paillier or arith.

import (
	crand "crypto/rand"
	"fmt"
	"io"
	"math/big"
	"math/rand"
	"sync"

	"verifharness/sx"
)

var (
	c12One      = big.NewInt(1)
	c12SecpQ, _ = new(big.Int).SetString("fffffffffffffffffffffffffffffffebaaedce6af48a03bbfd25e8cd0364141", 16)
)

const c12LPrime = 1280 // params.LPrime (the model's lprime)

func c12RandBits(r *rand.Rand, bits int) *big.Int {
	if bits <= 0 {
		return new(big.Int)
	}
	b := make([]byte, (bits+7)/8)
	r.Read(b)
	z := new(big.Int).SetBytes(b)
	return z.Rsh(z, uint(len(b)*8-bits))
}

// uniform-ish in [0, n)
func c12RandBelow(r *rand.Rand, n *big.Int) *big.Int {
	if n.Sign() <= 0 {
		return new(big.Int)
	}
	z := c12RandBits(r, n.BitLen()+64)
	return z.Mod(z, n)
}

func c12Signed(r *rand.Rand, z *big.Int) *big.Int {
	if r.Intn(2) == 0 {
		return new(big.Int).Neg(z)
	}
	return z
}

// ---- Paillier by the textbook, over math/big ----

// (1+N)^m rho^N mod N^2 computed as (1 + m N) rho^N (binomial theorem), any sign of m
func c12BigEnc(k *c12Key, m, rho *big.Int) *big.Int {
	g := new(big.Int).Mul(m, k.N)
	g.Add(g, c12One).Mod(g, k.N2)
	r := new(big.Int).Exp(new(big.Int).Mod(rho, k.N2), k.N, k.N2)
	return g.Mul(g, r).Mod(g, k.N2)
}

// representative of x modulo N in [-(N-1)/2, (N-1)/2]
func c12BigSym(N, x *big.Int) *big.Int {
	a := new(big.Int).Mod(x, N)
	half := new(big.Int).Rsh(N, 1)
	if a.Cmp(half) > 0 {
		a.Sub(a, N)
	}
	return a
}

func c12BigValid(k *c12Key, ct *big.Int) bool {
	return ct.Sign() > 0 && ct.Cmp(k.N2) < 0 && new(big.Int).GCD(nil, nil, ct, k.N2).Cmp(c12One) == 0
}

// Carmichael-function decryption: L(c^lambda mod N^2) * lambda^-1 mod N, symmetric representative
func c12BigDec(k *c12Key, ct *big.Int) *big.Int {
	u := new(big.Int).Exp(ct, k.lam, k.N2)
	u.Sub(u, c12One).Div(u, k.N)
	li := new(big.Int).ModInverse(new(big.Int).Mod(k.lam, k.N), k.N)
	if li == nil {
		return nil
	}
	u.Mul(u, li)
	return c12BigSym(k.N, u)
}

// x^e mod n for signed e; nil when e < 0 and x is not invertible
func c12BigExp(n, x, e *big.Int) *big.Int {
	y := new(big.Int).Exp(new(big.Int).Mod(x, n), new(big.Int).Abs(e), n)
	if n.Cmp(c12One) == 0 {
		return new(big.Int)
	}
	if e.Sign() < 0 {
		return y.ModInverse(y, n)
	}
	return y
}

// ---- operand classification: bucket names depend only on the relation of the operand to the key ----

func c12Pow2(z *big.Int) bool {
	a := new(big.Int).Abs(z)
	return a.Sign() > 0 && new(big.Int).And(a, new(big.Int).Sub(a, c12One)).Sign() == 0
}

func c12ClassM(k *c12Key, m *big.Int) string {
	if m.Sign() == 0 {
		return "0"
	}
	s := "+"
	if m.Sign() < 0 {
		s = "-"
	}
	a := new(big.Int).Abs(m)
	d := new(big.Int).Sub(a, k.half)
	if d.IsInt64() && d.Int64() >= -1 && d.Int64() <= 2 {
		return s + []string{"(half-1)", "half", "(half+1)", "(half+2)"}[d.Int64()+1]
	}
	if a.IsInt64() && a.Int64() <= 2 {
		return s + fmt.Sprint(a.Int64())
	}
	dn := new(big.Int).Sub(a, k.N)
	if dn.IsInt64() && dn.Int64() >= -1 && dn.Int64() <= 1 {
		return s + []string{"(N-1)", "N", "(N+1)"}[dn.Int64()+1]
	}
	in := "in"
	if a.Cmp(k.half) > 0 {
		in = "out"
	}
	if c12Pow2(a) {
		return s + "pow2-" + in
	}
	return s + "rand-" + in
}

func c12ClassC(k *c12Key, ct *big.Int) string {
	if ct.IsInt64() && ct.Int64() <= 2 && ct.Sign() >= 0 {
		return fmt.Sprint(ct.Int64())
	}
	for _, b := range []struct {
		z *big.Int
		n string
	}{{k.N, "N"}, {k.N2, "N2"}} {
		d := new(big.Int).Sub(ct, b.z)
		if d.IsInt64() && d.Int64() >= -1 && d.Int64() <= 1 {
			return b.n + []string{"-1", "", "+1"}[d.Int64()+1]
		}
	}
	pre := ""
	if ct.Cmp(k.N2) > 0 {
		pre = "above-N2-"
	}
	z := new(big.Int)
	switch {
	case z.Mod(ct, k.N).Sign() == 0:
		return pre + "mult-N"
	case z.Mod(ct, k.p).Sign() == 0:
		return pre + "mult-p"
	case z.Mod(ct, k.q).Sign() == 0:
		return pre + "mult-q"
	}
	return pre + "unit"
}

func c12ClassK(s *big.Int) string {
	if s.Sign() == 0 {
		return "0"
	}
	sg := "+"
	if s.Sign() < 0 {
		sg = "-"
	}
	a := new(big.Int).Abs(s)
	switch {
	case a.IsInt64() && a.Int64() <= 3:
		return sg + fmt.Sprint(a.Int64())
	case new(big.Int).Add(a, c12One).Cmp(c12SecpQ) == 0:
		return sg + "(q-1)"
	case a.BitLen() <= 64:
		return sg + "word"
	case a.Cmp(c12SecpQ) < 0:
		return sg + "scalar"
	}
	return sg + "big"
}

func c12ClassAB(s *big.Int) string {
	switch {
	case s.Sign() == 0:
		return "0"
	case s.Cmp(c12One) == 0:
		return "1"
	case new(big.Int).Add(s, c12One).Cmp(c12SecpQ) == 0:
		return "q-1"
	case s.Sign() < 0:
		return "neg"
	}
	return "rand"
}

// exponentiation operands relative to the modulus n = p*q of the call
func c12ClassX(n, p, q, x *big.Int) string {
	if x.IsInt64() && x.Int64() <= 2 {
		return fmt.Sprint(x.Int64())
	}
	d := new(big.Int).Sub(x, n)
	if d.IsInt64() && d.Int64() >= -1 && d.Int64() <= 1 {
		return "n" + []string{"-1", "", "+1"}[d.Int64()+1]
	}
	pre := ""
	if x.Cmp(n) > 0 {
		pre = ">n-"
	}
	z := new(big.Int)
	switch {
	case z.Mod(x, p).Sign() == 0:
		return pre + "mult-p"
	case z.Mod(x, q).Sign() == 0:
		return pre + "mult-q"
	case z.GCD(nil, nil, x, n).Cmp(c12One) != 0:
		return pre + "nonunit"
	}
	return pre + "unit"
}

func c12ClassE(n, phi, e *big.Int) string {
	if e.Sign() == 0 {
		return "0"
	}
	sg := "+"
	if e.Sign() < 0 {
		sg = "-"
	}
	a := new(big.Int).Abs(e)
	switch {
	case a.IsInt64() && a.Int64() <= 2:
		return sg + fmt.Sprint(a.Int64())
	case a.Cmp(phi) == 0:
		return sg + "phi"
	case new(big.Int).Sub(a, phi).CmpAbs(c12One) == 0:
		return sg + "phi+-1"
	case a.Cmp(n) == 0:
		return sg + "n"
	case c12Pow2(a), c12Pow2(new(big.Int).Add(a, c12One)):
		return sg + "pow2"
	case a.BitLen() <= 64:
		return sg + "word"
	case a.BitLen() > n.BitLen():
		return sg + "wide"
	}
	return sg + "rand"
}

// ---- deterministic randomness tape behind crypto/rand.Reader ----

type c12Tape struct {
	mu sync.Mutex
	r  *rand.Rand
}

func c12NewTape(seed int64) *c12Tape { return &c12Tape{r: rand.New(rand.NewSource(seed))} }

func (t *c12Tape) Read(p []byte) (int, error) {
	t.mu.Lock()
	defer t.mu.Unlock()
	return t.r.Read(p)
}

var c12TapeMu sync.Mutex

// c12WithTape installs a tape as crypto/rand.Reader and returns the function that restores the previous reader.
func c12WithTape(seed int64) func() {
	c12TapeMu.Lock()
	old := crand.Reader
	crand.Reader = c12NewTape(seed)
	return func() {
		crand.Reader = old
		c12TapeMu.Unlock()
	}
}

// what sample.IntervalLPrime reads from a tape: LPrime/8+1 bytes, bit 0 of the first is the sign, the rest big-endian
func c12TapeIntervalLPrime(t io.Reader) *big.Int {
	buf := make([]byte, c12LPrime/8+1)
	io.ReadFull(t, buf)
	z := new(big.Int).SetBytes(buf[1:])
	if buf[0]&1 == 1 {
		z.Neg(z)
	}
	return z
}

// what sample.UnitModN reads: ceil(bits/8) bytes per attempt, first value coprime to n (NOT reduced modulo n)
func c12TapeUnit(t io.Reader, n *big.Int) *big.Int {
	buf := make([]byte, (n.BitLen()+7)/8)
	for i := 0; i < 255; i++ {
		io.ReadFull(t, buf)
		z := new(big.Int).SetBytes(buf)
		if new(big.Int).GCD(nil, nil, z, n).Cmp(c12One) == 0 {
			return z
		}
	}
	return nil
}

// ---- printing ----

func c12Trunc(v sx.V) string {
	s := v.String()
	if len(s) > 160 {
		return s[:70] + "..." + s[len(s)-70:] + fmt.Sprintf(" [%d chars]", len(s))
	}
	return s
}

func c12Short(z *big.Int) string {
	if z == nil {
		return "nil"
	}
	s := z.String()
	if len(s) > 40 {
		return s[:16] + "..." + s[len(s)-16:] + fmt.Sprintf("[%d bits]", z.BitLen())
	}
	return s
}
