package main

import (
	"bufio"
	"fmt"
	"math/big"
	"os"
	"strings"
	"sync"

	"github.com/cronokirby/saferith"
	"github.com/taurusgroup/multi-party-sig/pkg/ecdsa"
	"github.com/taurusgroup/multi-party-sig/pkg/math/curve"
	"github.com/taurusgroup/multi-party-sig/pkg/math/sample"
	"github.com/taurusgroup/multi-party-sig/pkg/party"
	"github.com/taurusgroup/multi-party-sig/pkg/pool"
	"github.com/taurusgroup/multi-party-sig/pkg/protocol"
	"github.com/taurusgroup/multi-party-sig/protocols/cmp"
)

// cached 1024-bit safe Blum primes (public test material generated once with the repo's own sampler)
var (
	primeMu   sync.Mutex
	primeList []*big.Int
	primeNext int
)

func loadPrimes() {
	primeMu.Lock()
	defer primeMu.Unlock()
	if primeList != nil {
		return
	}
	f, err := os.Open("/verif/data/safeprimes24.txt")
	if err != nil {
		panic(err)
	}
	defer f.Close()
	sc := bufio.NewScanner(f)
	sc.Buffer(make([]byte, 1<<16), 1<<16)
	for sc.Scan() {
		l := strings.TrimSpace(sc.Text())
		if l == "" || strings.HasPrefix(l, "#") {
			continue
		}
		z, ok := new(big.Int).SetString(l, 16)
		if ok {
			primeList = append(primeList, z)
		}
	}
}

// usePrimeCache makes sample.Paillier return cached safe primes (verif hook); pairs are handed out round-robin.
func usePrimeCache() {
	loadPrimes()
	sample.VerifPrimeSource = func() (*saferith.Nat, *saferith.Nat, bool) {
		primeMu.Lock()
		defer primeMu.Unlock()
		n := len(primeList) / 2
		i := primeNext % n
		primeNext++
		p, q := primeList[2*i], primeList[2*i+1]
		return new(saferith.Nat).SetBig(p, 1024), new(saferith.Nat).SetBig(q, 1024), true
	}
}

var cmpPool = pool.NewPool(0)

func specCMPKeygen(ids []party.ID, t int, sid []byte) SessionSpec {
	return SessionSpec{Name: fmt.Sprintf("cmp-keygen/n=%d/t=%d", len(ids), t), IDs: ids, SessionID: sid,
		Start: func(id party.ID) protocol.StartFunc { return cmp.Keygen(curve.Secp256k1{}, id, ids, t, cmpPool) }}
}

func specCMPRefresh(cfgs map[party.ID]*cmp.Config, ids []party.ID, sid []byte) SessionSpec {
	return SessionSpec{Name: fmt.Sprintf("cmp-refresh/n=%d", len(ids)), IDs: ids, SessionID: sid,
		Start: func(id party.ID) protocol.StartFunc { return cmp.Refresh(cfgs[id], cmpPool) }}
}

func specCMPSign(cfgs map[party.ID]*cmp.Config, signers []party.ID, msg []byte, sid []byte) SessionSpec {
	return SessionSpec{Name: fmt.Sprintf("cmp-sign/n=%d", len(signers)), IDs: signers, SessionID: sid,
		Start: func(id party.ID) protocol.StartFunc { return cmp.Sign(cfgs[id], signers, msg, cmpPool) }}
}

func specCMPPresign(cfgs map[party.ID]*cmp.Config, signers []party.ID, sid []byte) SessionSpec {
	return SessionSpec{Name: fmt.Sprintf("cmp-presign/n=%d", len(signers)), IDs: signers, SessionID: sid,
		Start: func(id party.ID) protocol.StartFunc { return cmp.Presign(cfgs[id], signers, cmpPool) }}
}

func specCMPPresignOnline(cfgs map[party.ID]*cmp.Config, pres map[party.ID]*ecdsa.PreSignature, signers []party.ID, msg []byte, sid []byte) SessionSpec {
	return SessionSpec{Name: fmt.Sprintf("cmp-presign-online/n=%d", len(signers)), IDs: signers, SessionID: sid,
		Start: func(id party.ID) protocol.StartFunc { return cmp.PresignOnline(cfgs[id], pres[id], msg, cmpPool) }}
}

// cmpConfigsOf extracts the per-party configs from a finished keygen/refresh sim
func cmpConfigsOf(s *Sim) (map[party.ID]*cmp.Config, error) {
	out := map[party.ID]*cmp.Config{}
	for id, n := range s.Nodes {
		r, e := resultOf(n)
		c, ok := r.(*cmp.Config)
		if !ok {
			return nil, fmt.Errorf("party %s: %s", id, e)
		}
		out[id] = c
	}
	return out, nil
}
