package main

// c15_corrupt.go -- (c): corrupted and adversarial encodings of every result type.

import (
	"bytes"
	"encoding/hex"
	"fmt"
	"math/big"
	"sort"
	"strings"

	"github.com/fxamacker/cbor/v2"
	"github.com/taurusgroup/multi-party-sig/pkg/ecdsa"
	"github.com/taurusgroup/multi-party-sig/pkg/math/curve"
	"github.com/taurusgroup/multi-party-sig/pkg/party"
	"github.com/taurusgroup/multi-party-sig/pkg/protocol"
	"github.com/taurusgroup/multi-party-sig/protocols/cmp"
	"github.com/taurusgroup/multi-party-sig/protocols/doerner"
	"github.com/taurusgroup/multi-party-sig/protocols/frost"

	"verifharness/sx"
)

// c15Class maps an exact alteration to the stable class used in violation keys (the exact one stays in the replay)
func c15Class(name string) string {
	switch name {
	case "null", "missing", "empty", "empty-bytes", "empty-map":
		return "absent"
	case "drop-first-byte", "prepend-byte", "one-byte":
		return "wrong-length"
	case "zero", "all-ff", "flip-low-bit", "flip-high-bit", "one", "group-order", "negated-point", "bad-prefix", "flip", "identity-point", "equals-T",
		"minus-one", "n", "n-plus-one", "2^32", "2^64-1", "min-int-minus", "other-id", "unknown-id", "invalid-utf8":
		return "bad-value"
	case "duplicate-party", "missing-first-party", "missing-last-party", "extra-party", "swapped-ids":
		return "party-set"
	case "empty-input", "garbage", "break-byte", "deep-nesting":
		return "not-cbor"
	case "truncated-half", "truncated-last":
		return "truncated"
	case "trailing-garbage", "doubled":
		return "trailing-bytes"
	case "empty-array", "wrong-type-From":
		return "wrong-type"
	case "bit-flip", "two-bit-flips", "byte-set", "truncate":
		return "mutation"
	case "short-0", "short-3":
		return "shorter-than-4-bytes"
	}
	return name
}

// c15CmpErrCode maps the text of an error of cmp Config.UnmarshalBinary to the code the model uses (coq/Model/Cbor.v)
func c15CmpErrCode(e string) int {
	paillierN := strings.Contains(e, "wrong number bit length of Paillier modulus N") || strings.Contains(e, "modulus N is even") || strings.Contains(e, "modulus N is nil")
	party := strings.HasPrefix(e, "config: party")
	switch {
	case strings.HasPrefix(e, "config: malformed data"):
		return 18
	case e == "config: missing fields":
		return 12
	case strings.HasPrefix(e, "config: chain key:"):
		return 14
	case strings.HasPrefix(e, "config: rid:"):
		return 13
	case strings.Contains(e, "secret key is zero"):
		return 2
	case strings.Contains(e, "config: prime P"):
		return 3
	case strings.Contains(e, "config: prime Q"):
		return 4
	case strings.Contains(e, "primes P and Q are equal"):
		return 15
	case !party && paillierN:
		return 16
	case strings.Contains(e, "duplicate entry"):
		return 6
	case party && strings.HasSuffix(e, ": missing fields"):
		return 17
	case party && paillierN:
		return 7
	case strings.Contains(e, "pedersen:"):
		return 8
	case strings.Contains(e, "public key is identity"):
		return 9
	case strings.Contains(e, "threshold") && strings.Contains(e, "is invalid"):
		return 10
	case strings.Contains(e, "no public data"):
		return 11
	case party:
		return 5
	}
	return 1
}

func c15OptBig(z *big.Int) sx.V {
	if z == nil {
		return sx.List()
	}
	return sx.List(sx.Big(z))
}

// c15CmpSx: the restored config in the shape the model prints (publics sorted by id on both sides before comparing)
func (c *ctx) c15CmpSx(cf *cmp.Config) (v sx.V, err error) {
	defer func() {
		if r := recover(); r != nil {
			err = fmt.Errorf("panic while reading config: %v", r)
		}
	}()
	var pubs []sx.V
	ids := make([]string, 0, len(cf.Public))
	for id := range cf.Public {
		ids = append(ids, string(id))
	}
	sort.Strings(ids)
	for _, id := range ids {
		p := cf.Public[party.ID(id)]
		x, e := c.ptSx(p.ECDSA)
		if e != nil {
			return sx.V{}, e
		}
		y, e := c.ptSx(p.ElGamal)
		if e != nil {
			return sx.V{}, e
		}
		pubs = append(pubs, sx.List(sx.Str(id), x, y, sx.Big(p.Paillier.N().Big()), c15OptBig(c15NatBig(p.Pedersen.S())), c15OptBig(c15NatBig(p.Pedersen.T()))))
	}
	return sx.List(sx.Str(string(cf.ID)), sx.Int(int64(cf.Threshold)), sx.Big(scalarZ(cf.ECDSA)), sx.Big(scalarZ(cf.ElGamal)),
		sx.Big(cf.Paillier.P().Big()), sx.Big(cf.Paillier.Q().Big()), sx.OptBytes(cf.RID), sx.OptBytes(cf.ChainKey), sx.List(pubs...)), nil
}

func c15SortPubs(v sx.V) sx.V {
	if v.Kind != 2 || len(v.L) != 9 {
		return v
	}
	pubs := append([]sx.V{}, v.L[8].L...)
	sort.SliceStable(pubs, func(i, j int) bool { return string(pubs[i].L[0].B) < string(pubs[j].L[0].B) })
	out := append([]sx.V{}, v.L[:8]...)
	return sx.List(append(out, sx.List(pubs...))...)
}

// c15PredictCMP compares Go's verdict on (possibly corrupted) config bytes with the model's config_unmarshal.
// returns "" if they agree or the model makes no claim, else a description.
func (c *ctx) c15PredictCMP(b []byte, obj interface{}, errText, pan string) (claim bool, diff string) {
	rep, err := c.m.Call("cbor.config_unmarshal", sx.Bytes(b))
	if err != nil {
		return false, ""
	}
	cls := rep.L[0].AsInt()
	if cls == 1 && rep.L[1].AsInt() == 100 {
		return false, "" // outside the modelled shape
	}
	switch {
	case pan != "":
		if cls != 2 {
			return true, "Go panics (" + c15Short(pan, 60) + "), model: " + c15Short(rep.String(), 60)
		}
	case errText != "":
		if cls != 1 || rep.L[1].AsInt() != c15CmpErrCode(errText) {
			return true, fmt.Sprintf("Go error %q (code %d), model: %s", c15Short(errText, 90), c15CmpErrCode(errText), c15Short(rep.String(), 60))
		}
	default:
		if cls != 0 {
			return true, "Go accepts, model: " + c15Short(rep.String(), 60)
		}
		gs, err := c.c15CmpSx(obj.(*cmp.Config))
		if err != nil {
			return true, "Go accepts an object that cannot be read: " + err.Error()
		}
		if !c15SortPubs(rep.L[1]).Equal(gs) {
			return true, "accepted configs differ: Go " + c15Short(gs.String(), 200) + " model " + c15Short(c15SortPubs(rep.L[1]).String(), 200)
		}
	}
	return true, ""
}

func (c *ctx) c15FrostSx(cf *frost.Config) (v sx.V, err error) {
	defer func() {
		if r := recover(); r != nil {
			err = fmt.Errorf("panic while reading config: %v", r)
		}
	}()
	pk, e := c.ptSx(cf.PublicKey)
	if e != nil {
		return sx.V{}, e
	}
	sh := []sx.V{}
	ids := []string{}
	pts := map[party.ID]curve.Point{}
	if cf.VerificationShares != nil {
		pts = cf.VerificationShares.Points
	}
	for id := range pts {
		ids = append(ids, string(id))
	}
	sort.Strings(ids)
	for _, id := range ids {
		p, e := c.ptSx(pts[party.ID(id)])
		if e != nil {
			return sx.V{}, e
		}
		sh = append(sh, sx.List(sx.Str(id), p))
	}
	return sx.List(sx.Str(string(cf.ID)), sx.Int(int64(cf.Threshold)), sx.Big(scalarZ(cf.PrivateShare)), pk, sx.OptBytes(cf.ChainKey), sx.List(sh...)), nil
}

// c15SortShares sorts a model share list ((id point) ...) by id
func c15SortShares(v sx.V) sx.V {
	l := append([]sx.V{}, v.L...)
	sort.SliceStable(l, func(i, j int) bool { return string(l[i].L[0].B) < string(l[j].L[0].B) })
	return sx.List(l...)
}

func (c *ctx) c15SharesSx(pts map[party.ID]curve.Point) (sx.V, error) {
	ids := []string{}
	for id := range pts {
		ids = append(ids, string(id))
	}
	sort.Strings(ids)
	sh := []sx.V{}
	for _, id := range ids {
		if pts[party.ID(id)] == nil {
			return sx.V{}, fmt.Errorf("nil point for %s", id)
		}
		p, e := c.ptSx(pts[party.ID(id)])
		if e != nil {
			return sx.V{}, e
		}
		sh = append(sh, sx.List(sx.Str(id), p))
	}
	return sx.List(sh...), nil
}

func c15OptSx(v *sx.V) sx.V {
	if v == nil {
		return sx.List()
	}
	return sx.List(*v)
}

// c15PredictOutcome compares Go's verdict with a model op that returns an outcome: (0 v) | (1 code) | (2).
// goSx renders the accepted Go object in the shape the model prints; norm normalises the model's value.
func (c *ctx) c15PredictOutcome(op string, arg sx.V, errText, pan string, goSx func() (sx.V, error), norm func(sx.V) sx.V) (claim bool, diff string) {
	rep, err := c.m.Call(op, arg)
	if err != nil {
		return false, ""
	}
	cls := rep.L[0].AsInt()
	if cls == 1 && rep.L[1].AsInt() == 100 {
		return false, "" // outside the modelled shape
	}
	switch {
	case pan != "":
		if cls != 2 {
			return true, "Go panics (" + c15Short(pan, 60) + "), model: " + c15Short(rep.String(), 60)
		}
	case errText != "":
		if cls != 1 {
			return true, fmt.Sprintf("Go error %q, model: %s", c15Short(errText, 90), c15Short(rep.String(), 60))
		}
	default:
		if cls != 0 {
			return true, "Go accepts, model: " + c15Short(rep.String(), 60)
		}
		gs, err := func() (v sx.V, err error) {
			defer func() {
				if r := recover(); r != nil {
					err = fmt.Errorf("panic while reading the object: %v", r)
				}
			}()
			return goSx()
		}()
		if err != nil {
			return true, "Go accepts an object that cannot be read: " + err.Error()
		}
		m := norm(rep.L[1])
		if !m.Equal(gs) {
			return true, "accepted objects differ: Go " + c15Short(gs.String(), 200) + " model " + c15Short(m.String(), 200)
		}
	}
	return true, ""
}

func (c *ctx) c15PredictFrost(b []byte, obj interface{}, errText, pan string) (bool, string) {
	return c.c15PredictOutcome("cbor.frost_unmarshal", sx.Bytes(b), errText, pan,
		func() (sx.V, error) { return c.c15FrostSx(obj.(*frost.Config)) },
		func(m sx.V) sx.V {
			if len(m.L) != 6 {
				return m
			}
			return sx.List(m.L[0], m.L[1], m.L[2], m.L[3], m.L[4], c15SortShares(m.L[5]))
		})
}

func (c *ctx) c15PredictTaproot(b []byte, obj interface{}, errText, pan string) (bool, string) {
	return c.c15PredictOutcome("cbor.taproot_unmarshal", sx.Bytes(b), errText, pan,
		func() (sx.V, error) {
			cf := obj.(*frost.TaprootConfig)
			pts := map[party.ID]curve.Point{}
			for id, p := range cf.VerificationShares {
				if p == nil {
					return sx.V{}, fmt.Errorf("nil share")
				}
				pts[id] = p
			}
			sh, err := c.c15SharesSx(pts)
			if err != nil {
				return sx.V{}, err
			}
			share := sx.List()
			if cf.PrivateShare != nil {
				share = sx.List(sx.Big(scalarZ(cf.PrivateShare)))
			}
			return sx.List(sx.Str(string(cf.ID)), sx.Int(int64(cf.Threshold)), share, sx.OptBytes(cf.PublicKey), sx.OptBytes(cf.ChainKey), sh), nil
		},
		func(m sx.V) sx.V {
			if len(m.L) != 6 {
				return m
			}
			return sx.List(m.L[0], m.L[1], m.L[2], m.L[3], m.L[4], c15SortShares(m.L[5]))
		})
}

func (c *ctx) c15PredictDoerner(b []byte, obj interface{}, errText, pan string) (bool, string) {
	setupLen := 4096
	if _, ok := obj.(*doerner.ConfigSender); ok {
		setupLen = 2064
	}
	return c.c15PredictOutcome("cbor.doerner_unmarshal", sx.List(sx.Int(int64(setupLen)), sx.Bytes(b)), errText, pan,
		func() (sx.V, error) {
			var setup []byte
			var share curve.Scalar
			var pub curve.Point
			var chain []byte
			switch cf := obj.(type) {
			case *doerner.ConfigReceiver:
				if cf.Setup != nil {
					setup, _ = cf.Setup.MarshalBinary()
				}
				share, pub, chain = cf.SecretShare, cf.Public, cf.ChainKey
			case *doerner.ConfigSender:
				if cf.Setup != nil {
					setup, _ = cf.Setup.MarshalBinary()
				}
				share, pub, chain = cf.SecretShare, cf.Public, cf.ChainKey
			}
			p, err := c.ptSx(pub)
			if err != nil {
				return sx.V{}, err
			}
			return sx.List(sx.OptBytes(setup), sx.Big(scalarZ(share)), p, sx.OptBytes(chain)), nil
		},
		func(m sx.V) sx.V { return m })
}

func (c *ctx) c15PredictSignature(b []byte, obj interface{}, errText, pan string) (bool, string) {
	return c.c15PredictOutcome("cbor.signature_unmarshal", sx.Bytes(b), errText, pan,
		func() (sx.V, error) {
			sg := obj.(*ecdsa.Signature)
			r, err := c.ptSx(sg.R)
			if err != nil {
				return sx.V{}, err
			}
			return sx.List(r, sx.Big(scalarZ(sg.S))), nil
		},
		func(m sx.V) sx.V { return m })
}

func (c *ctx) c15PredictPreSig(b []byte, obj interface{}, errText, pan string) (bool, string) {
	return c.c15PredictOutcome("cbor.presig_unmarshal", sx.Bytes(b), errText, pan,
		func() (sx.V, error) {
			ps := obj.(*ecdsa.PreSignature)
			r, err := c.ptSx(ps.R)
			if err != nil {
				return sx.V{}, err
			}
			pm := func(m *party.PointMap) (sx.V, error) {
				if m == nil {
					return sx.List(), nil
				}
				sh, err := c.c15SharesSx(m.Points)
				if err != nil {
					return sx.V{}, err
				}
				return sx.List(sh), nil
			}
			rb, err := pm(ps.RBar)
			if err != nil {
				return sx.V{}, err
			}
			sm, err := pm(ps.S)
			if err != nil {
				return sx.V{}, err
			}
			return sx.List(sx.OptBytes(ps.ID), r, rb, sm, sx.Big(scalarZ(ps.KShare)), sx.Big(scalarZ(ps.ChiShare))), nil
		},
		func(m sx.V) sx.V {
			if len(m.L) != 6 {
				return m
			}
			so := func(v sx.V) sx.V {
				if len(v.L) == 1 {
					return sx.List(c15SortShares(v.L[0]))
				}
				return v
			}
			return sx.List(m.L[0], m.L[1], so(m.L[2]), so(m.L[3]), m.L[4], m.L[5])
		})
}

// c15PredictMessage: the model's message_unmarshal into a fresh receiver against Go's UnmarshalBinary
func (c *ctx) c15PredictMessage(b []byte, obj interface{}, errText, pan string) (claim bool, diff string) {
	dec, err := c.m.Call("cbor.message_decode", sx.Bytes(b))
	if err != nil || len(dec.L) == 0 {
		return false, "" // refused or outside the modelled shape: no claim
	}
	rep, err := c.m.Call("cbor.message_unmarshal", sx.List(c15MsgSx(&protocol.Message{}), sx.Bytes(b)))
	if err != nil {
		return false, ""
	}
	if pan != "" {
		return true, "Go panics: " + pan
	}
	if rep.L[1].AsBool() != (errText != "") {
		return true, fmt.Sprintf("error status differs: Go %q, model %s", errText, rep.String())
	}
	if errText == "" && !rep.L[0].Equal(c15MsgSx(obj.(*protocol.Message))) {
		return true, "decoded messages differ: Go " + c15Short(c15MsgSx(obj.(*protocol.Message)).String(), 200) + " model " + c15Short(rep.L[0].String(), 200)
	}
	return true, ""
}

// c15OutsideSubset: the bytes are well-formed CBOR for fxamacker but not inside the modelled subset (top level, or inside a
// byte string that the type decodes as nested CBOR)
func c15OutsideSubset(t *c15Type, b []byte) bool {
	tree, _, err := c15Parse(b, 0)
	if err != nil {
		return cbor.Valid(b) == nil
	}
	if tree.K != c15Map {
		return false
	}
	for f := range t.Nested {
		if v := tree.get(f); v != nil && v.K == c15Bytes {
			if _, _, err := c15Parse(v.B, 0); err != nil && cbor.Valid(v.B) == nil {
				return true
			}
		}
	}
	return false
}

// c15Judge: one adversarial input for one type
func (c *ctx) c15Judge(t *c15Type, field, name string, b []byte, predict bool) {
	obj, errText, pan := c15Restore(t, b)
	outcome := "error"
	var probs []string
	switch {
	case pan != "":
		outcome = "panic"
		probs = []string{"panic: " + c15Short(pan, 160)}
	case errText == "":
		outcome = "accepted-valid"
		probs = c15Check(t, obj)
		if len(probs) > 0 {
			outcome = "accepted-invalid"
		}
	}
	c.res.Case("corrupt/"+t.Name+"/"+outcome, t.Name+hex.EncodeToString(b), true)
	c.res.Dist["alteration/"+name]++
	if predict && c15OutsideSubset(t, b) {
		// well-formed CBOR that uses items the model does not have (tags, floats, other simple values, indefinite lengths):
		// fxamacker's leniency there is not modelled (DESIGN: residue of C15)
		predict = false
		c.res.Dist["corrupt/"+t.Name+"/outside-model"]++
	}
	if predict {
		var claim bool
		var diff string
		switch t.Name {
		case "cmp.Config":
			claim, diff = c.c15PredictCMP(b, obj, errText, pan)
		case "frost.Config":
			claim, diff = c.c15PredictFrost(b, obj, errText, pan)
		case "frost.TaprootConfig":
			claim, diff = c.c15PredictTaproot(b, obj, errText, pan)
		case "doerner.ConfigReceiver", "doerner.ConfigSender":
			claim, diff = c.c15PredictDoerner(b, t.Empty(), errText, pan)
			if errText == "" && pan == "" {
				claim, diff = c.c15PredictDoerner(b, obj, errText, pan)
			}
		case "ecdsa.Signature":
			claim, diff = c.c15PredictSignature(b, obj, errText, pan)
		case "ecdsa.PreSignature":
			claim, diff = c.c15PredictPreSig(b, obj, errText, pan)
		case "protocol.Message":
			claim, diff = c.c15PredictMessage(b, obj, errText, pan)
		}
		if claim {
			c.res.Corr(diff == "")
			if diff != "" {
				c.res.Violate("correspondence", "C15/"+t.Name+"-unmarshal-mismatch/"+field+"/"+c15Class(name), diff,
					c15Replay{Type: t.Name, Field: field, Corruption: name, Bytes: hex.EncodeToString(b), What: "model prediction"})
			}
		} else {
			c.res.Dist["corrupt/"+t.Name+"/outside-model"]++
		}
	}
	if len(probs) > 0 {
		sort.Strings(probs)
		what := "gives no error but "
		if pan != "" {
			what = "ends in a "
		}
		c.res.Violate("property", "C15/"+t.Name+"/"+field+"/"+c15Class(name),
			fmt.Sprintf("restoring %s with %s := %s %s%s", t.Name, field, name, what, strings.Join(probs, "; ")),
			c15Replay{Type: t.Name, Field: field, Corruption: name, Bytes: hex.EncodeToString(b), What: "corruption", Problems: probs})
	}
}

func (c *ctx) c15CorruptAll(mats []c15Material) {
	ts := c15Types()
	r := c.res.Rng
	perType := map[string]int{}
	limit := 1
	if c.thorough() {
		limit = 2
	}
	encChecked := 0
	for _, m := range mats {
		t := ts[m.Type]
		if t == nil || perType[m.Type] >= limit {
			continue
		}
		perType[m.Type]++
		tree, rest, err := c15Parse(m.Bytes, 0)
		if err != nil || len(rest) != 0 {
			c.res.Violate("correspondence", "C15/emitted-subset/"+m.Type, fmt.Sprintf("the library wrote CBOR outside the modelled subset: %v, %d trailing bytes", err, len(rest)),
				c15Replay{Type: m.Type, Bytes: hex.EncodeToString(m.Bytes), What: "subset"})
			continue
		}
		// the honest encoding is inside the model's subset, and the three encoders agree on it
		mb, wf, e := c.c15ModelEncode(tree)
		if e == nil {
			ok := wf && bytes.Equal(mb, m.Bytes) && bytes.Equal(tree.bytes(), m.Bytes)
			c.res.Corr(ok)
			if !ok {
				c.res.Violate("correspondence", "C15/encode-mismatch/"+m.Type, "the library's encoding is not the model's encoding of the same tree",
					c15Replay{Type: m.Type, Bytes: hex.EncodeToString(m.Bytes), Model: hex.EncodeToString(mb), What: "encode"})
			}
		}
		c.c15Judge(t, "(whole)", "unchanged", m.Bytes, true)
		var ids []string
		self := ""
		if t.IDs != nil {
			ids = t.IDs(m.Obj)
		}
		if t.Self != nil {
			self = t.Self(m.Obj)
		}
		corrs := c15Corruptions(tree, t.Nested, t.IDKeyed, ids, self)
		for i, co := range corrs {
			b := co.Tree.bytes()
			if encChecked < 40 && i%7 == 0 {
				encChecked++
				if mb, _, e := c.c15ModelEncode(co.Tree); e == nil {
					c.res.Corr(bytes.Equal(mb, b))
					if !bytes.Equal(mb, b) {
						c.res.Violate("correspondence", "C15/encode-mismatch/corrupted-tree", "harness encoder and model encoder disagree",
							c15Replay{Type: m.Type, Bytes: hex.EncodeToString(b), Model: hex.EncodeToString(mb), What: "encode"})
					}
				}
			}
			c.c15Judge(t, co.Field, co.Name, b, true)
		}
		c.res.Sample(12, map[string]interface{}{"what": "corruptions", "type": m.Type, "count": len(corrs), "first": corrs[0].Field + "/" + corrs[0].Name})
		// whole-input alterations
		whole := map[string][]byte{
			"empty-input":      {},
			"garbage":          {1, 2, 3},
			"empty-map":        {0xa0},
			"truncated-half":   m.Bytes[:len(m.Bytes)/2],
			"truncated-last":   m.Bytes[:len(m.Bytes)-1],
			"trailing-garbage": append(append([]byte{}, m.Bytes...), 0xff, 0x00),
			"doubled":          append(append([]byte{}, m.Bytes...), m.Bytes...),
		}
		names := make([]string, 0, len(whole))
		for k := range whole {
			names = append(names, k)
		}
		sort.Strings(names)
		for _, k := range names {
			c.c15Judge(t, "(whole)", k, whole[k], true)
		}
		// random flips / truncations / byte overwrites
		nr := 150
		if c.thorough() {
			nr = 3000
		}
		if m.Type == "cmp.Config" && !c.thorough() {
			nr = 60
		}
		for i := 0; i < nr; i++ {
			x := append([]byte{}, m.Bytes...)
			kind := "bit-flip"
			switch r.Intn(4) {
			case 0:
				kind = "truncate"
				x = x[:r.Intn(len(x))]
			case 1:
				kind = "byte-set"
				x[r.Intn(len(x))] = byte(r.Intn(256))
			case 2:
				kind = "two-bit-flips"
				x[r.Intn(len(x))] ^= 1 << uint(r.Intn(8))
				x[r.Intn(len(x))] ^= 1 << uint(r.Intn(8))
			default:
				// flips concentrated where structure lives: the first 48 bytes half of the time
				p := r.Intn(len(x))
				if r.Intn(2) == 0 && len(x) > 48 {
					p = r.Intn(48)
				}
				x[p] ^= 1 << uint(r.Intn(8))
			}
			c.c15Judge(t, "random", kind, x, i%5 == 0)
		}
	}
}

// c15Witnesses feeds Go the configs behind the Coq refutations C15_config_*_refuted, built from a real config
func (c *ctx) c15Witnesses(mats []c15Material) {
	ts := c15Types()
	t := ts["cmp.Config"]
	for _, m := range mats {
		if m.Type != "cmp.Config" {
			continue
		}
		tree, _, err := c15Parse(m.Bytes, 0)
		if err != nil {
			return
		}
		set := func(name string, P, Q *big.Int) {
			x := tree.clone()
			if P != nil {
				x.get("P").B = P.Bytes()
			}
			if Q != nil {
				x.get("Q").B = Q.Bytes()
			}
			c.c15Judge(t, "P", name, x.bytes(), true)
		}
		set("composite-with-prime-half", c15PC, nil)
		set("product-2047-bits", c15PS, c15PS)
		set("P-equals-Q", c15P0, c15P0)
		return
	}
}

// ---------------------------------------------------------------------------------------------
// replay: {"type","field","corruption","bytes_hex"} re-judges exactly those bytes; session scenarios are re-run whole

func (c *ctx) c15ReplayRun() {
	var rp c15Replay
	if err := readJSON(c.replay, &rp); err != nil {
		c.res.Note("cannot read replay: %v", err)
		return
	}
	ts := c15Types()
	t := ts[rp.Type]
	b, herr := hex.DecodeString(rp.Bytes)
	switch {
	case rp.What == "restore-repeat":
		c.c15RepeatReplay(rp)
	case rp.What == "later-session" || rp.What == "restore-not-equal" || rp.What == "restore" || rp.What == "marshal":
		// session scenarios are re-run whole (same seed: same schedule)
		c.c15Sessions()
	case rp.Type == "polynomial.Exponent" && herr == nil:
		c.res.Case("replay", rp.Bytes, true)
		func() {
			defer func() {
				if p := recover(); p != nil {
					fmt.Println("replay: Exponent.UnmarshalBinary panics:", p)
					c.res.Violate("property", "C15/polynomial.Exponent/(whole)/"+c15Class(rp.Corruption), fmt.Sprint("Exponent.UnmarshalBinary panics: ", p), rp)
				}
			}()
			fmt.Println("replay: Exponent.UnmarshalBinary:", polynomialEmpty().UnmarshalBinary(b))
		}()
	case rp.Type == "protocol.Message" && rp.What == "roundtrip" && herr == nil:
		m := &protocol.Message{}
		err := m.UnmarshalBinary(b)
		b2, _ := m.MarshalBinary()
		fmt.Printf("replay: UnmarshalBinary err=%v restored=%s re-encoded equal=%v\n", err, c15MsgSx(m), bytes.Equal(b, b2))
		c.res.Case("replay", rp.Bytes, true)
		if err == nil && !bytes.Equal(b, b2) {
			c.res.Violate("property", "C15/protocol.Message/From/bad-value", "bytes written by MarshalBinary come back as a different (empty) message with a nil error", rp)
		}
	case rp.What == "crafted" && t != nil && herr == nil:
		c.c15JudgeCrafted(t, rp.Corruption, b)
		obj, errText, pan := c15Restore(t, b)
		var probs []string
		if obj != nil && errText == "" && pan == "" {
			probs = c15Check(t, obj)
		}
		fmt.Printf("replay: %s restore from crafted material %q: err=%q panic=%q problems=%v\n", rp.Type, rp.Corruption, errText, pan, probs)
	case t != nil && herr == nil:
		c.c15Judge(t, rp.Field, rp.Corruption, b, true)
		obj, errText, pan := c15Restore(t, b)
		var probs []string
		if obj != nil && errText == "" && pan == "" {
			probs = c15Check(t, obj)
		}
		fmt.Printf("replay: %s restore: err=%q panic=%q problems=%v\n", rp.Type, errText, pan, probs)
	default:
		c.res.Note("replay file not understood: type %q what %q", rp.Type, rp.What)
	}
}
