package main

// C18, default-sized pools: NewPool(0) and NewPool(-1) take their size from the CPUs the PROCESS sees (runtime.NumCPU(), read
// once at process start from the affinity mask).  The harness process cannot change that for itself, so the run re-executes its
// own binary as a child (`vh C18CHILD -replay <spec>`) restricted to k CPUs of the parent's own affinity mask (taskset -c ...,
// or sched_setaffinity on a locked OS thread before the exec when taskset is missing), for k in {1, 2, 4}.
//
// In the child, for each pool argument in {0, -1}, on a fresh pool per case:
//   parallelize/c  (c in 0,1,7,64)  three consecutive Parallelize(c, f_r) calls, f_r a pure function of the index;
//   search/c       (c in 0,1,5,32)  three consecutive Search(c, g) calls, g answers nil every third time, else the call's token;
//   mixed/6                          Parallelize(7) Search(5) Parallelize(64) Search(32) Parallelize(1) Search(1) on one pool;
// oracle: every call returns within the watchdog the SAME slice as the nil pool given the same function (the nil pool is the
// library's own sequential definition; the expected slices are also recomputed by hand here), the pool stays usable for the
// next call, TearDown returns within the watchdog and the worker goroutines are gone afterwards.  No model is involved in the
// child (main.go starts one for every property; the child does not call it).
//
// Keys: C18/default-pool/cpus=<k>/<what>, <what> in parallelize-blocked, search-blocked, search-nil-result, result-differs,
// teardown-blocked, workers-remain-after-teardown, panic, child-aborted.  Replay: {mode, cpus, pool_arg, op, count}.

import (
	"bytes"
	"context"
	"encoding/json"
	"fmt"
	"os"
	"os/exec"
	"path/filepath"
	"runtime"
	"strconv"
	"strings"
	"sync/atomic"
	"syscall"
	"time"
	"unsafe"

	"github.com/taurusgroup/multi-party-sig/pkg/pool"
)

func init() { props["C18CHILD"] = runC18Child }

const c18DefMode = "default-pool"

// c18DefCase is one case and at the same time the replay of a violation found in it.
type c18DefCase struct {
	Mode    string `json:"mode"`
	Cpus    int    `json:"cpus"`
	PoolArg int    `json:"pool_arg"`
	Op      string `json:"op"`
	Count   int    `json:"count"`
}

type c18DefSpec struct {
	Mode       string       `json:"mode"` // "default-pool-child"
	Cpus       int          `json:"cpus"`
	WatchdogMs int          `json:"watchdog_ms"`
	Report     string       `json:"report"`
	Cases      []c18DefCase `json:"cases"`
}

type c18DefOutcome struct {
	Case    c18DefCase `json:"case"`
	Done    bool       `json:"done"`
	What    string     `json:"what"` // "" = the oracle holds
	Desc    string     `json:"desc"`
	Calls   int        `json:"calls"`
	Elapsed float64    `json:"elapsed_s"`
}

type c18DefReport struct {
	NumCPU   int             `json:"num_cpu"`
	Affinity int             `json:"affinity_cpus"`
	Outcomes []c18DefOutcome `json:"outcomes"`
	Finished bool            `json:"finished"`
}

func c18DefCases(k int) []c18DefCase {
	var cs []c18DefCase
	for _, arg := range []int{0, -1} {
		for _, n := range []int{0, 1, 7, 64} {
			cs = append(cs, c18DefCase{c18DefMode, k, arg, "parallelize", n})
		}
		for _, n := range []int{0, 1, 5, 32} {
			cs = append(cs, c18DefCase{c18DefMode, k, arg, "search", n})
		}
		cs = append(cs, c18DefCase{c18DefMode, k, arg, "mixed", 6})
	}
	return cs
}

// ---------------------------------------------------------------------------------------------------------------------------
// parent

// c18AllowedCPUs returns the CPUs of the calling process' affinity mask (nil if the system call fails).
func c18AllowedCPUs() []int {
	var mask [128]uint64 // 8192 CPUs
	n, _, e := syscall.RawSyscall(syscall.SYS_SCHED_GETAFFINITY, 0, unsafe.Sizeof(mask), uintptr(unsafe.Pointer(&mask[0])))
	if e != 0 || n == 0 {
		return nil
	}
	var cpus []int
	for i := 0; i < int(n)*8 && i < len(mask)*64; i++ {
		if mask[i/64]&(1<<(uint(i)%64)) != 0 {
			cpus = append(cpus, i)
		}
	}
	return cpus
}

func c18SetAffinity(cpus []int) error {
	var mask [128]uint64
	for _, i := range cpus {
		if i < 0 || i >= len(mask)*64 {
			return fmt.Errorf("cpu %d out of range", i)
		}
		mask[i/64] |= 1 << (uint(i) % 64)
	}
	_, _, e := syscall.RawSyscall(syscall.SYS_SCHED_SETAFFINITY, 0, unsafe.Sizeof(mask), uintptr(unsafe.Pointer(&mask[0])))
	if e != 0 {
		return e
	}
	return nil
}

// c18ModelPath: main.go does not keep the -model argument; the child is started with the same one.
func c18ModelPath() string {
	a := os.Args
	for i := 2; i < len(a); i++ {
		for _, p := range []string{"-model", "--model"} {
			if a[i] == p && i+1 < len(a) {
				return a[i+1]
			}
			if strings.HasPrefix(a[i], p+"=") {
				return a[i][len(p)+1:]
			}
		}
	}
	return ""
}

// c18RunChild runs the cases in a child process that sees exactly the given CPUs.  how = "" means the child could not be
// started under the restriction (nothing is judged then).
func (c *ctx) c18RunChild(cpus []int, cases []c18DefCase, watchdog time.Duration) (rep *c18DefReport, how string, diag string) {
	k := len(cpus)
	exe, err := os.Executable()
	if err != nil {
		return nil, "", "os.Executable: " + err.Error()
	}
	dir, err := os.MkdirTemp("", "vh-c18-default-")
	if err != nil {
		return nil, "", "temp dir: " + err.Error()
	}
	defer os.RemoveAll(dir)
	spec := c18DefSpec{Mode: "default-pool-child", Cpus: k, WatchdogMs: int(watchdog / time.Millisecond), Report: filepath.Join(dir, "report.json"), Cases: cases}
	sb, _ := json.Marshal(spec)
	specPath := filepath.Join(dir, "spec.json")
	if err := os.WriteFile(specPath, sb, 0o644); err != nil {
		return nil, "", "spec: " + err.Error()
	}
	args := []string{exe, "C18CHILD", "-tier", c.tier, "-seed", strconv.FormatInt(c.res.Seed, 10), "-replay", specPath}
	if mp := c18ModelPath(); mp != "" {
		args = append(args, "-model", mp)
	}
	// the child is given 3 watchdogs per blocked call at most (see the child) plus start-up
	ctxT, cancel := context.WithTimeout(context.Background(), 60*time.Second+time.Duration(len(cases))*watchdog)
	defer cancel()
	var outb bytes.Buffer
	var cmd *exec.Cmd
	var runErr error
	if ts, err := exec.LookPath("taskset"); err == nil {
		strs := make([]string, k)
		for i, x := range cpus {
			strs[i] = strconv.Itoa(x)
		}
		how = "taskset -c " + strings.Join(strs, ",")
		cmd = exec.CommandContext(ctxT, ts, append([]string{"-c", strings.Join(strs, ",")}, args...)...)
		cmd.Stdout, cmd.Stderr = &outb, &outb
		runErr = cmd.Run()
	} else {
		// restrict one OS thread and fork from it: the child inherits the mask.  The goroutine ends without unlocking, so the
		// restricted thread is destroyed and never runs other goroutines of the harness.
		how = "sched_setaffinity on a locked thread before exec"
		type st struct{ aff, start error }
		ch := make(chan st, 1)
		cmd = exec.CommandContext(ctxT, args[0], args[1:]...)
		cmd.Stdout, cmd.Stderr = &outb, &outb
		go func() {
			runtime.LockOSThread()
			if err := c18SetAffinity(cpus); err != nil {
				runtime.UnlockOSThread() // mask unchanged
				ch <- st{aff: err}
				return
			}
			ch <- st{start: cmd.Start()}
		}()
		s := <-ch
		if s.aff != nil {
			return nil, "", "no taskset in PATH and sched_setaffinity failed: " + s.aff.Error()
		}
		if s.start != nil {
			return nil, "", "cannot start the child: " + s.start.Error()
		}
		runErr = cmd.Wait()
	}
	tail := outb.String()
	if len(tail) > 1500 {
		tail = tail[len(tail)-1500:]
	}
	diag = how
	if runErr != nil {
		diag += "; child: " + runErr.Error() + "; output: " + tail
	}
	b, err := os.ReadFile(spec.Report)
	if err != nil {
		// the child never got as far as its first report: the restriction or the start failed (environment), not the pool
		return nil, "", diag + "; no report from the child"
	}
	rep = &c18DefReport{}
	if err := json.Unmarshal(b, rep); err != nil {
		return nil, "", diag + "; unreadable report: " + err.Error()
	}
	return rep, how, diag
}

// c18DefJudge turns the report of one child into cases / violations.  Returns the number of findings.
func (c *ctx) c18DefJudge(k int, cases []c18DefCase, rep *c18DefReport, how, diag string) int {
	if rep == nil {
		c.res.Note("default-pool cpus=%d: child could not be run under the CPU restriction, nothing judged (%s)", k, diag)
		return 0
	}
	if rep.NumCPU != k {
		var fs []string
		for _, o := range rep.Outcomes {
			if o.What != "" {
				fs = append(fs, fmt.Sprintf("%s/%d pool_arg=%d: %s", o.Case.Op, o.Case.Count, o.Case.PoolArg, o.What))
			}
		}
		c.res.Note("default-pool cpus=%d: the child sees runtime.NumCPU()=%d (affinity %d) under %s, not %d: nothing judged (child findings: %v)", k, rep.NumCPU, rep.Affinity, how, k, fs)
		return 0
	}
	found := 0
	seen := map[c18DefCase]bool{}
	for _, o := range rep.Outcomes {
		seen[o.Case] = true
		cs := o.Case
		c.res.Case(fmt.Sprintf("default-pool/cpus=%d/%s", k, cs.Op), fmt.Sprintf("default-pool/cpus=%d/arg=%d/%s/%d", k, cs.PoolArg, cs.Op, cs.Count), cs.Count > 0)
		if !o.Done {
			// the child died in the middle of this case (a panic in a worker goroutine or a fatal error of the runtime cannot be
			// recovered in-process; here it is an outcome)
			found++
			c.res.Violate("property", fmt.Sprintf("C18/default-pool/cpus=%d/child-aborted", k),
				fmt.Sprintf("NewPool(%d) in a process that sees %d CPU(s): the process died during %s count=%d (%s)", cs.PoolArg, k, cs.Op, cs.Count, diag), cs)
			continue
		}
		if o.What != "" {
			found++
			c.res.Violate("property", fmt.Sprintf("C18/default-pool/cpus=%d/%s", k, o.What),
				fmt.Sprintf("NewPool(%d) in a process that sees %d CPU(s) (runtime.NumCPU()=%d, %s): %s count=%d: %s", cs.PoolArg, k, rep.NumCPU, how, cs.Op, cs.Count, o.Desc), cs)
		}
	}
	if !rep.Finished {
		n := 0
		for _, cs := range cases {
			if !seen[cs] {
				n++
			}
		}
		c.res.Note("default-pool cpus=%d: the child stopped early, %d cases not run (%s)", k, n, diag)
	}
	return found
}

func (c *ctx) c18Default() {
	t0 := time.Now()
	c.res.Rule += "; default-pool: NewPool(0) / NewPool(-1) in a re-executed child that sees k in {1,2,4} CPUs (taskset / sched_setaffinity): consecutive Parallelize (0,1,7,64), " +
		"Search (0,1,5,32) and mixed calls equal the nil pool's results within a 10 s watchdog, TearDown returns and the workers are gone; non-trivial = count>0"
	allowed := c18AllowedCPUs()
	if allowed == nil {
		// affinity unknown: try the first CPUs by number
		for i := 0; i < runtime.NumCPU(); i++ {
			allowed = append(allowed, i)
		}
	}
	for _, k := range []int{1, 2, 4} {
		if k > len(allowed) {
			c.res.Note("default-pool cpus=%d: the harness itself sees only %d CPU(s), case skipped", k, len(allowed))
			continue
		}
		cases := c18DefCases(k)
		rep, how, diag := c.c18RunChild(allowed[:k], cases, 10*time.Second)
		found := c.c18DefJudge(k, cases, rep, how, diag)
		if rep != nil {
			c.res.Note("default-pool cpus=%d (%s on cpus %v): child NumCPU=%d, %d cases, %d findings", k, how, allowed[:k], rep.NumCPU, len(rep.Outcomes), found)
			if k == 1 {
				c.res.Sample(8, map[string]interface{}{"default-pool": "child", "cpus": k, "how": how, "num_cpu": rep.NumCPU, "cases": len(rep.Outcomes)})
			}
		}
	}
	c.res.Note("default-pool total: %.1fs", time.Since(t0).Seconds())
}

// c18DefaultReplay re-runs exactly one case of a default-pool violation in a child under the same restriction.
func (c *ctx) c18DefaultReplay() bool {
	var rp c18DefCase
	if err := readJSON(c.replay, &rp); err != nil || rp.Mode != c18DefMode {
		return false
	}
	allowed := c18AllowedCPUs()
	if allowed == nil {
		for i := 0; i < runtime.NumCPU(); i++ {
			allowed = append(allowed, i)
		}
	}
	if rp.Cpus < 1 || rp.Cpus > len(allowed) {
		fmt.Printf("replay: default-pool: %d CPUs wanted, the harness sees %d\n", rp.Cpus, len(allowed))
		return true
	}
	rep, how, diag := c.c18RunChild(allowed[:rp.Cpus], []c18DefCase{rp}, 10*time.Second)
	found := c.c18DefJudge(rp.Cpus, []c18DefCase{rp}, rep, how, diag)
	if rep != nil {
		for _, o := range rep.Outcomes {
			fmt.Printf("replay: default-pool cpus=%d NumCPU=%d NewPool(%d) %s count=%d: done=%v calls=%d %.2fs what=%q %s\n", rp.Cpus, rep.NumCPU, o.Case.PoolArg, o.Case.Op, o.Case.Count, o.Done, o.Calls, o.Elapsed, o.What, o.Desc)
		}
	}
	fmt.Printf("replay: default-pool property holds=%v (%s)\n", found == 0, diag)
	return true
}

// ---------------------------------------------------------------------------------------------------------------------------
// child

func runC18Child(c *ctx) {
	var spec c18DefSpec
	if c.replay == "" || readJSON(c.replay, &spec) != nil || spec.Mode != "default-pool-child" || spec.Report == "" {
		fmt.Fprintln(os.Stderr, "C18CHILD is the child mode of C18 (default-pool); it is started by `vh C18`")
		return
	}
	rep := &c18DefReport{NumCPU: runtime.NumCPU(), Affinity: len(c18AllowedCPUs()), Outcomes: []c18DefOutcome{}}
	write := func() {
		b, _ := json.Marshal(rep)
		tmp := spec.Report + ".tmp"
		if os.WriteFile(tmp, b, 0o644) == nil {
			os.Rename(tmp, spec.Report)
		}
	}
	write()
	wd := time.Duration(spec.WatchdogMs) * time.Millisecond
	if wd <= 0 {
		wd = 10 * time.Second
	}
	for _, cs := range spec.Cases {
		// the case is on record as started before the library is touched: if the process dies in it, the parent knows where
		rep.Outcomes = append(rep.Outcomes, c18DefOutcome{Case: cs})
		write()
		o := c18DefRunCase(cs, wd)
		o.Done = true
		rep.Outcomes[len(rep.Outcomes)-1] = o
		write()
		if strings.HasSuffix(o.What, "-blocked") && wd > 2*time.Second {
			// a pool has been seen blocking for the full watchdog: the remaining cases of this (already failing) child get a
			// short one, so that a broken pool does not cost cases x 10 s
			wd = 2 * time.Second
		}
	}
	rep.Finished = true
	write()
}

// the functions handed to the pools: pure functions of (round, index) / per-call token with every third answer nil
func c18DefParF(round int) func(int) interface{} {
	return func(i int) interface{} { return 1000003*round + i*i + 7*i }
}

func c18DefSearchF(round int) func() interface{} {
	var ctr int64
	return func() interface{} {
		if atomic.AddInt64(&ctr, 1)%3 == 0 {
			return nil
		}
		return 5000 + round
	}
}

type c18DefCall struct {
	search bool
	count  int
}

func c18DefRunCase(cs c18DefCase, wd time.Duration) (o c18DefOutcome) {
	o.Case = cs
	t0 := time.Now()
	defer func() { o.Elapsed = time.Since(t0).Seconds() }()
	var calls []c18DefCall
	switch cs.Op {
	case "parallelize":
		calls = []c18DefCall{{false, cs.Count}, {false, cs.Count}, {false, cs.Count}}
	case "search":
		calls = []c18DefCall{{true, cs.Count}, {true, cs.Count}, {true, cs.Count}}
	case "mixed":
		calls = []c18DefCall{{false, 7}, {true, 5}, {false, 64}, {true, 32}, {false, 1}, {true, 1}}
	default:
		o.What, o.Desc = "", "unknown op"
		return
	}
	base := runtime.NumGoroutine()
	var pl *pool.Pool
	var pan interface{}
	if !withWatchdog(wd, func() {
		defer func() { pan = recover() }()
		pl = pool.NewPool(cs.PoolArg)
	}) {
		o.What, o.Desc = "newpool-blocked", fmt.Sprintf("NewPool(%d) did not return within %v", cs.PoolArg, wd)
		return
	}
	if pan != nil || pl == nil {
		o.What, o.Desc = "panic", fmt.Sprintf("NewPool(%d) panicked: %v", cs.PoolArg, pan)
		return
	}
	var np *pool.Pool
	for r, cl := range calls {
		o.Calls = r
		name := "Parallelize"
		if cl.search {
			name = "Search"
		}
		// expected: the nil pool on the same function (fresh counter), cross-checked against the hand-computed slice
		var want, hand []interface{}
		if cl.search {
			want = np.Search(cl.count, c18DefSearchF(r))
			for i := 0; i < cl.count; i++ {
				hand = append(hand, 5000+r)
			}
		} else {
			want = np.Parallelize(cl.count, c18DefParF(r))
			for i := 0; i < cl.count; i++ {
				hand = append(hand, 1000003*r+i*i+7*i)
			}
		}
		if d := c18DefDiff(want, hand); d != "" {
			o.What, o.Desc = "result-differs", fmt.Sprintf("call %d: the nil pool's %s(%d) differs from the definition: %s", r+1, name, cl.count, d)
			return
		}
		var got []interface{}
		pan = nil
		fin := withWatchdog(wd, func() {
			defer func() { pan = recover() }()
			if cl.search {
				got = pl.Search(cl.count, c18DefSearchF(r))
			} else {
				got = pl.Parallelize(cl.count, c18DefParF(r))
			}
		})
		if !fin {
			o.What = strings.ToLower(name) + "-blocked"
			o.Desc = fmt.Sprintf("call %d on the pool, %s(%d), did not return within %v (the nil pool returns at once)", r+1, name, cl.count, wd)
			return // a blocked pool cannot be torn down
		}
		if pan != nil {
			o.What, o.Desc = "panic", fmt.Sprintf("call %d on the pool, %s(%d), panicked: %v", r+1, name, cl.count, pan)
			return
		}
		if d := c18DefDiff(got, want); d != "" {
			o.What = "result-differs"
			if cl.search {
				for _, x := range got {
					if x == nil && len(got) == len(want) {
						o.What = "search-nil-result"
					}
				}
			}
			o.Desc = fmt.Sprintf("call %d on the pool, %s(%d): %s", r+1, name, cl.count, d)
			return
		}
	}
	o.Calls = len(calls)
	pan = nil
	if !withWatchdog(wd, func() {
		defer func() { pan = recover() }()
		pl.TearDown()
	}) {
		o.What, o.Desc = "teardown-blocked", fmt.Sprintf("TearDown after %d calls did not return within %v", len(calls), wd)
		return
	}
	if pan != nil {
		o.What, o.Desc = "panic", fmt.Sprintf("TearDown after %d calls panicked: %v", len(calls), pan)
		return
	}
	// the workers (and the helper goroutines of the watchdogs above, which have all finished) go away
	deadline := time.Now().Add(wd / 2)
	for runtime.NumGoroutine() > base {
		if time.Now().After(deadline) {
			o.What = "workers-remain-after-teardown"
			o.Desc = fmt.Sprintf("%d goroutines before NewPool(%d), still %d %v after TearDown returned", base, cs.PoolArg, runtime.NumGoroutine(), wd/2)
			return
		}
		time.Sleep(time.Millisecond)
	}
	return
}

// c18DefDiff: "" if the slices are equal element by element.
func c18DefDiff(got, want []interface{}) string {
	if len(got) != len(want) {
		return fmt.Sprintf("%d results, the nil pool gives %d", len(got), len(want))
	}
	var bad []string
	for i := range got {
		if got[i] != want[i] {
			bad = append(bad, fmt.Sprintf("[%d]=%v want %v", i, got[i], want[i]))
		}
	}
	if len(bad) == 0 {
		return ""
	}
	n := len(bad)
	if n > 4 {
		bad = bad[:4]
	}
	return fmt.Sprintf("%d of %d results differ from the nil pool's: %s", n, len(got), strings.Join(bad, ", "))
}
