package main

// c05_cbor.go -- a small generic CBOR tree (decode / encode with optional hand-crafted raw nodes) used by the C05
// malformed-input generator.  The genuine payloads are first decoded with fxamacker/cbor into interface{} (sanity:
// the library's own decoder accepts them), then parsed by this order-preserving reader so that every node can be
// re-encoded byte-exactly, removed, replaced, duplicated, or replaced by a raw head announcing a huge length.

import (
	"encoding/binary"
	"errors"
	"fmt"
	"sort"
)

type c05Cnode struct {
	Major byte   // 0 uint, 1 negint, 2 bytes, 3 text, 4 array, 5 map, 6 tag, 7 simple/float
	Val   uint64 // uint value / negint argument / tag number / simple value
	Bytes []byte // bytes, text; for major 7 with float: the raw payload after the head
	Info  byte   // additional info of the original head (major 7 only)
	Items []*c05Cnode
	Keys  []*c05Cnode // map keys (parallel to Items = values)
	Raw   []byte      // if non-nil: emitted verbatim instead of the node
	// Inner: for byte strings whose content (from offset InnerOff) is itself well-formed CBOR (e.g. Exponent)
	Inner    *c05Cnode
	InnerOff int
}

func c05CHead(major byte, v uint64) []byte {
	m := major << 5
	switch {
	case v < 24:
		return []byte{m | byte(v)}
	case v <= 0xff:
		return []byte{m | 24, byte(v)}
	case v <= 0xffff:
		b := []byte{m | 25, 0, 0}
		binary.BigEndian.PutUint16(b[1:], uint16(v))
		return b
	case v <= 0xffffffff:
		b := []byte{m | 26, 0, 0, 0, 0}
		binary.BigEndian.PutUint32(b[1:], uint32(v))
		return b
	}
	b := make([]byte, 9)
	b[0] = m | 27
	binary.BigEndian.PutUint64(b[1:], v)
	return b
}

// c05CHeadWide writes a head with an explicit 4- or 8-byte argument (non-shortest form allowed on purpose).
func c05CHeadWide(major byte, v uint64, width int) []byte {
	m := major << 5
	if width == 4 {
		b := []byte{m | 26, 0, 0, 0, 0}
		binary.BigEndian.PutUint32(b[1:], uint32(v))
		return b
	}
	b := make([]byte, 9)
	b[0] = m | 27
	binary.BigEndian.PutUint64(b[1:], v)
	return b
}

func (n *c05Cnode) enc(out []byte) []byte {
	if n.Raw != nil {
		return append(out, n.Raw...)
	}
	switch n.Major {
	case 0, 1:
		return append(out, c05CHead(n.Major, n.Val)...)
	case 2, 3:
		b := n.Bytes
		if n.Inner != nil {
			b = append(append([]byte{}, n.Bytes[:n.InnerOff]...), n.Inner.enc(nil)...)
		}
		out = append(out, c05CHead(n.Major, uint64(len(b)))...)
		return append(out, b...)
	case 4:
		out = append(out, c05CHead(4, uint64(len(n.Items)))...)
		for _, it := range n.Items {
			out = it.enc(out)
		}
		return out
	case 5:
		out = append(out, c05CHead(5, uint64(len(n.Items)))...)
		for i, it := range n.Items {
			out = n.Keys[i].enc(out)
			out = it.enc(out)
		}
		return out
	case 6:
		out = append(out, c05CHead(6, n.Val)...)
		return n.Items[0].enc(out)
	default:
		if n.Info < 24 {
			return append(out, 7<<5|n.Info)
		}
		out = append(out, 7<<5|n.Info)
		return append(out, n.Bytes...)
	}
}

func (n *c05Cnode) encode() []byte { return n.enc(nil) }

var c05ErrCborShort = errors.New("cbor: truncated")

func c05CParse(b []byte, depth int) (*c05Cnode, []byte, error) {
	if depth > 64 {
		return nil, nil, errors.New("cbor: too deep")
	}
	if len(b) == 0 {
		return nil, nil, c05ErrCborShort
	}
	major, info := b[0]>>5, b[0]&31
	b = b[1:]
	var v uint64
	switch {
	case info < 24:
		v = uint64(info)
	case info == 24:
		if len(b) < 1 {
			return nil, nil, c05ErrCborShort
		}
		v, b = uint64(b[0]), b[1:]
	case info == 25:
		if len(b) < 2 {
			return nil, nil, c05ErrCborShort
		}
		v, b = uint64(binary.BigEndian.Uint16(b)), b[2:]
	case info == 26:
		if len(b) < 4 {
			return nil, nil, c05ErrCborShort
		}
		v, b = uint64(binary.BigEndian.Uint32(b)), b[4:]
	case info == 27:
		if len(b) < 8 {
			return nil, nil, c05ErrCborShort
		}
		v, b = binary.BigEndian.Uint64(b), b[8:]
	default:
		return nil, nil, errors.New("cbor: indefinite / reserved head not supported")
	}
	n := &c05Cnode{Major: major, Val: v, Info: info}
	switch major {
	case 0, 1:
		return n, b, nil
	case 2, 3:
		if uint64(len(b)) < v {
			return nil, nil, c05ErrCborShort
		}
		n.Bytes = append([]byte{}, b[:v]...)
		return n, b[v:], nil
	case 4:
		if v > uint64(len(b)) {
			return nil, nil, c05ErrCborShort
		}
		for i := uint64(0); i < v; i++ {
			it, rest, err := c05CParse(b, depth+1)
			if err != nil {
				return nil, nil, err
			}
			n.Items = append(n.Items, it)
			b = rest
		}
		return n, b, nil
	case 5:
		if v > uint64(len(b)) {
			return nil, nil, c05ErrCborShort
		}
		for i := uint64(0); i < v; i++ {
			k, rest, err := c05CParse(b, depth+1)
			if err != nil {
				return nil, nil, err
			}
			it, rest2, err := c05CParse(rest, depth+1)
			if err != nil {
				return nil, nil, err
			}
			n.Keys = append(n.Keys, k)
			n.Items = append(n.Items, it)
			b = rest2
		}
		return n, b, nil
	case 6:
		it, rest, err := c05CParse(b, depth+1)
		if err != nil {
			return nil, nil, err
		}
		n.Items = []*c05Cnode{it}
		return n, rest, nil
	default:
		// simple / float: keep the argument bytes verbatim
		switch info {
		case 24:
			n.Bytes = []byte{byte(v)}
		case 25:
			n.Bytes = make([]byte, 2)
			binary.BigEndian.PutUint16(n.Bytes, uint16(v))
		case 26:
			n.Bytes = make([]byte, 4)
			binary.BigEndian.PutUint32(n.Bytes, uint32(v))
		case 27:
			n.Bytes = make([]byte, 8)
			binary.BigEndian.PutUint64(n.Bytes, v)
		}
		return n, b, nil
	}
}

// c05CParseAll parses exactly one item spanning all of b; byte strings that contain a nested CBOR array/map
// (at offset 0 or after a 4-byte header, as polynomial.Exponent does) get an Inner tree.
func c05CParseAll(b []byte) (*c05Cnode, error) {
	n, rest, err := c05CParse(b, 0)
	if err != nil {
		return nil, err
	}
	if len(rest) != 0 {
		return nil, fmt.Errorf("cbor: %d trailing bytes", len(rest))
	}
	c05CFindInner(n, 0)
	return n, nil
}

func c05CFindInner(n *c05Cnode, depth int) {
	if depth > 6 {
		return
	}
	for _, k := range n.Items {
		c05CFindInner(k, depth)
	}
	if n.Major != 2 || len(n.Bytes) < 3 {
		return
	}
	for _, off := range []int{0, 4} {
		if len(n.Bytes) <= off+1 {
			continue
		}
		m := n.Bytes[off] >> 5
		if m != 4 && m != 5 {
			continue
		}
		in, rest, err := c05CParse(n.Bytes[off:], 0)
		if err != nil || len(rest) != 0 || len(in.Items) == 0 {
			continue
		}
		// plausibility: a map must have text/bytes/uint keys
		n.Inner, n.InnerOff = in, off
		c05CFindInner(in, depth+1)
		return
	}
}

func (n *c05Cnode) clone() *c05Cnode {
	if n == nil {
		return nil
	}
	c := *n
	c.Bytes = append([]byte(nil), n.Bytes...)
	if n.Bytes != nil && c.Bytes == nil {
		c.Bytes = []byte{}
	}
	c.Raw = append([]byte(nil), n.Raw...)
	if n.Raw == nil {
		c.Raw = nil
	}
	c.Items = make([]*c05Cnode, len(n.Items))
	for i, it := range n.Items {
		c.Items[i] = it.clone()
	}
	if n.Keys != nil {
		c.Keys = make([]*c05Cnode, len(n.Keys))
		for i, it := range n.Keys {
			c.Keys[i] = it.clone()
		}
	}
	c.Inner = n.Inner.clone()
	return &c
}

func (n *c05Cnode) kind() string {
	switch n.Major {
	case 0:
		return "uint"
	case 1:
		return "negint"
	case 2:
		return "bytes"
	case 3:
		return "text"
	case 4:
		return "array"
	case 5:
		return "map"
	case 6:
		return "tag"
	}
	switch n.Info {
	case 20, 21:
		return "bool"
	case 22:
		return "null"
	}
	return "simple"
}

func (n *c05Cnode) keyLabel() string {
	switch n.Major {
	case 0:
		return fmt.Sprintf("%d", n.Val)
	case 1:
		return fmt.Sprintf("-%d", n.Val+1)
	case 2:
		if len(n.Bytes) <= 12 && c05IsPrintable(n.Bytes) {
			return string(n.Bytes)
		}
		return fmt.Sprintf("h%x", n.Bytes)
	case 3:
		return string(n.Bytes)
	}
	return n.kind()
}

func c05IsPrintable(b []byte) bool {
	for _, c := range b {
		if c < 0x21 || c > 0x7e || c == '/' {
			return false
		}
	}
	return len(b) > 0
}

// c05CStep is one step of a path from the root: index into Items, or "into the nested CBOR of a byte string".
type c05CStep struct {
	Idx   int
	Inner bool
}

type c05CPath struct {
	Steps []c05CStep
	Label string // human-readable, stable: /Key/[i]/~cbor/...
}

// c05CPaths enumerates every node of the tree (root included, label "").  Elements of arrays with more than
// maxArr entries are sampled (first, second, last) so that long OT vectors do not explode the case count.
func c05CPaths(root *c05Cnode, maxArr int) []c05CPath {
	var out []c05CPath
	var walk func(n *c05Cnode, steps []c05CStep, label string)
	walk = func(n *c05Cnode, steps []c05CStep, label string) {
		out = append(out, c05CPath{Steps: append([]c05CStep{}, steps...), Label: label})
		if n.Inner != nil {
			walk(n.Inner, append(steps, c05CStep{Inner: true}), label+"/~cbor")
			return
		}
		idx := make([]int, 0, len(n.Items))
		for i := range n.Items {
			idx = append(idx, i)
		}
		if n.Major == 4 && len(idx) > maxArr {
			idx = []int{0, 1, len(n.Items) - 1}
		}
		if n.Major == 5 && len(idx) > 4*maxArr {
			idx = idx[:4*maxArr]
		}
		for _, i := range idx {
			var l string
			if n.Major == 5 {
				l = label + "/" + n.Keys[i].keyLabel()
			} else if n.Major == 6 {
				l = label + "/tagged"
			} else {
				l = fmt.Sprintf("%s/[%d]", label, i)
				if i == len(n.Items)-1 && i > 1 {
					l = label + "/[last]"
				}
			}
			walk(n.Items[i], append(steps, c05CStep{Idx: i}), l)
		}
	}
	walk(root, nil, "")
	return out
}

// c05CAt returns (parent, node) for a path in (a clone of) the tree.
func c05CAt(root *c05Cnode, p c05CPath) (parent *c05Cnode, n *c05Cnode, last c05CStep) {
	n = root
	for _, s := range p.Steps {
		parent, last = n, s
		if s.Inner {
			n = n.Inner
		} else {
			n = n.Items[s.Idx]
		}
	}
	return
}

// c05CReplace returns the encoding of the tree with the node at p replaced by repl (nil = removed from its parent).
func c05CReplace(root *c05Cnode, p c05CPath, repl *c05Cnode) ([]byte, bool) {
	r := root.clone()
	if len(p.Steps) == 0 {
		if repl == nil {
			return nil, false
		}
		return repl.encode(), true
	}
	parent, _, last := c05CAt(r, p)
	if last.Inner {
		if repl == nil {
			// drop the nested document: keep only the prefix
			parent.Bytes, parent.Inner = append([]byte{}, parent.Bytes[:parent.InnerOff]...), nil
			return r.encode(), true
		}
		parent.Inner = repl
		return r.encode(), true
	}
	if repl == nil {
		if parent.Major == 6 {
			return nil, false
		}
		parent.Items = append(parent.Items[:last.Idx], parent.Items[last.Idx+1:]...)
		if parent.Keys != nil {
			parent.Keys = append(parent.Keys[:last.Idx], parent.Keys[last.Idx+1:]...)
		}
		return r.encode(), true
	}
	parent.Items[last.Idx] = repl
	return r.encode(), true
}

// helpers to build nodes
func c05CUint(v uint64) *c05Cnode       { return &c05Cnode{Major: 0, Val: v} }
func c05CNeg(v uint64) *c05Cnode        { return &c05Cnode{Major: 1, Val: v} } // value -1-v
func c05CBytes(b []byte) *c05Cnode      { return &c05Cnode{Major: 2, Bytes: append([]byte{}, b...)} }
func c05CText(s string) *c05Cnode       { return &c05Cnode{Major: 3, Bytes: []byte(s)} }
func c05CArr(it ...*c05Cnode) *c05Cnode { return &c05Cnode{Major: 4, Items: it} }
func c05CMap(kv ...*c05Cnode) *c05Cnode {
	n := &c05Cnode{Major: 5, Keys: []*c05Cnode{}, Items: []*c05Cnode{}}
	for i := 0; i+1 < len(kv); i += 2 {
		n.Keys = append(n.Keys, kv[i])
		n.Items = append(n.Items, kv[i+1])
	}
	return n
}
func c05CNull() *c05Cnode { return &c05Cnode{Major: 7, Info: 22} }
func c05CBool(b bool) *c05Cnode {
	if b {
		return &c05Cnode{Major: 7, Info: 21}
	}
	return &c05Cnode{Major: 7, Info: 20}
}
func c05CRaw(b []byte) *c05Cnode { return &c05Cnode{Raw: b} }

// c05CMalformation is one named replacement for a node.
type c05CMalformation struct {
	Name   string
	Repl   *c05Cnode        // nil with Remove => delete from parent
	Gen    func() *c05Cnode // large replacements are built on demand
	Remove bool
}

func (m c05CMalformation) repl() *c05Cnode {
	if m.Remove {
		return nil
	}
	if m.Gen != nil {
		return m.Gen()
	}
	return m.Repl
}

func c05Rep(b byte, n int) []byte {
	o := make([]byte, n)
	for i := range o {
		o[i] = b
	}
	return o
}

// c05CMalformationsFor lists the malformations applicable to node n (the whole catalogue; tiers sample from it).
func c05CMalformationsFor(n *c05Cnode, isRoot bool) []c05CMalformation {
	var ms []c05CMalformation
	add := func(name string, r *c05Cnode) { ms = append(ms, c05CMalformation{Name: name, Repl: r}) }
	lazy := func(name string, g func() *c05Cnode) { ms = append(ms, c05CMalformation{Name: name, Gen: g}) }
	if !isRoot {
		ms = append(ms, c05CMalformation{Name: "absent", Remove: true})
	}
	add("null", c05CNull())
	// wrong major type
	if n.Major != 0 {
		add("type-int", c05CUint(1))
	}
	if n.Major != 2 {
		add("type-bytes", c05CBytes([]byte{1, 2}))
	}
	if n.Major != 4 {
		add("type-array", c05CArr(c05CUint(1)))
	}
	if n.Major != 5 {
		add("type-map", c05CMap(c05CUint(1), c05CUint(1)))
	}
	if n.Major != 3 {
		add("type-text", c05CText("x"))
	}
	if n.kind() != "bool" {
		add("type-bool", c05CBool(true))
	}
	add("type-negint", c05CNeg(0))
	add("type-float", c05CRaw([]byte{0xfb, 0x7f, 0xf0, 0, 0, 0, 0, 0, 0})) // +Inf
	add("type-tag-bignum", &c05Cnode{Major: 6, Val: 2, Items: []*c05Cnode{c05CBytes(c05Rep(0xff, 40))}})
	// huge declared lengths with no content
	add("huge-array-2^32", c05CRaw(c05CHeadWide(4, 0xffffffff, 4)))
	add("huge-array-2^62", c05CRaw(c05CHeadWide(4, 1<<62, 8)))
	add("huge-map-2^32", c05CRaw(c05CHeadWide(5, 0xffffffff, 4)))
	add("huge-map-2^62", c05CRaw(c05CHeadWide(5, 1<<62, 8)))
	add("huge-bytes-2^32", c05CRaw(c05CHeadWide(2, 0xffffffff, 4)))
	add("huge-bytes-2^62", c05CRaw(c05CHeadWide(2, 1<<62, 8)))
	add("huge-text-2^32", c05CRaw(c05CHeadWide(3, 0xffffffff, 4)))
	add("indefinite-array", c05CRaw([]byte{0x9f, 0x01, 0xff}))
	add("indefinite-bytes", c05CRaw([]byte{0x5f, 0x41, 0x01, 0xff}))
	switch n.Major {
	case 0, 1:
		for _, v := range []uint64{0, 1, 2, 255, 65535, 65536, 1<<32 - 1, 1 << 32, 1<<63 - 1, 1<<64 - 1} {
			if !(n.Major == 0 && v == n.Val) {
				add(fmt.Sprintf("int-%d", v), c05CUint(v))
			}
		}
		add("int-minus1", c05CNeg(0))
		add("int-min64", c05CNeg(1<<63-1))
		add("int-neg-2^64", c05CNeg(1<<64-1))
		add("int-plus1", c05CUint(n.Val+1))
	case 2, 3:
		b := n.Bytes
		mk := func(x []byte) *c05Cnode { return &c05Cnode{Major: n.Major, Bytes: x} }
		add("empty", mk([]byte{}))
		if len(b) >= 1 {
			add("short-1", mk(append([]byte{}, b[:len(b)-1]...)))
			add("len1", mk([]byte{b[0]}))
			add("long-1", mk(append(append([]byte{}, b...), 0)))
			add("zero", mk(c05Rep(0, len(b))))
			add("ones", mk(c05Rep(0xff, len(b))))
			f := append([]byte{}, b...)
			f[0] ^= 0x80
			add("flip-first", mk(f))
			l := append([]byte{}, b...)
			l[len(l)-1] ^= 1
			add("flip-last", mk(l))
			h := append([]byte{}, b...)
			h[0] ^= 0x01
			add("flip-prefix-bit", mk(h))
		}
		add("len3", mk([]byte{1, 2, 3}))
		add("len4-ffffffff", mk([]byte{0xff, 0xff, 0xff, 0xff}))
		add("len5-ffffffff80", mk([]byte{0xff, 0xff, 0xff, 0xff, 0x80}))
		add("len4-zero", mk([]byte{0, 0, 0, 0}))
		if len(b) >= 4 {
			c := append([]byte{}, b...)
			copy(c, []byte{0xff, 0xff, 0xff, 0xff})
			add("prefix-ffffffff", mk(c))
			c2 := append([]byte{}, b...)
			copy(c2, []byte{0x10, 0, 0, 0})
			add("prefix-10000000", mk(c2))
			c3 := append([]byte{}, b...)
			copy(c3, []byte{0, 0, 0, 0})
			add("prefix-00000000", mk(c3))
			add("half", mk(append([]byte{}, b[:len(b)/2]...)))
			lazy("double", func() *c05Cnode { return mk(append(append([]byte{}, b...), b...)) })
		}
		add("long-4k", mk(c05Rep(0xff, 4096)))
		lazy("long-1M", func() *c05Cnode { return mk(c05Rep(0x01, 1<<20)) })
		// the genuine value with 256 KiB of zero padding (same value, huge ANNOUNCED size): in front (unsigned encodings) and
		// after the first byte (sign-prefixed encodings); work must not grow with the padding
		if len(b) >= 2 {
			lazy("pad-front-256k", func() *c05Cnode { return mk(append(c05Rep(0, 256<<10), b...)) })
			lazy("pad-after-sign-256k", func() *c05Cnode {
				return mk(append(append([]byte{b[0]}, c05Rep(0, 256<<10)...), b[1:]...))
			})
		}
		add("one-byte-0", mk([]byte{0}))
		add("one-byte-1", mk([]byte{1}))
		if n.Major == 3 {
			add("text-invalid-utf8", c05CRaw([]byte{0x62, 0xff, 0xfe}))
		}
		if n.Inner != nil {
			add("inner-garbage", mk(append(append([]byte{}, b[:n.InnerOff]...), 0xff, 0x00, 0x13)))
			add("inner-truncated", mk(append([]byte{}, b[:n.InnerOff+(len(b)-n.InnerOff)/2]...)))
		}
	case 4:
		add("empty", c05CArr())
		if len(n.Items) > 0 {
			last := n.Items[len(n.Items)-1]
			a := n.clone()
			a.Items = a.Items[:len(a.Items)-1]
			add("drop-last", a)
			b := n.clone()
			b.Items = append(b.Items, last.clone())
			add("dup-last", b)
			lazy("plus-many", func() *c05Cnode {
				c := n.clone()
				for i := 0; i < c05CManyCount(last); i++ {
					c.Items = append(c.Items, last)
				}
				return c
			})
			d := n.clone()
			for i := range d.Items {
				d.Items[i] = c05CNull()
			}
			add("all-null", d)
			e := n.clone()
			e.Items = e.Items[:1]
			add("only-first", e)
			// declared count larger than content
			f := n.clone()
			enc := f.encode()
			hl := len(c05CHead(4, uint64(len(n.Items))))
			add("count-plus1", c05CRaw(append(c05CHead(4, uint64(len(n.Items))+1), enc[hl:]...)))
			if len(n.Items) > 1 {
				g := n.clone()
				g.Items[0], g.Items[len(g.Items)-1] = g.Items[len(g.Items)-1], g.Items[0]
				add("swap-ends", g)
			}
		}
	case 5:
		add("empty", c05CMap())
		if len(n.Items) > 0 {
			a := n.clone()
			a.Keys = append(a.Keys, a.Keys[0].clone())
			a.Items = append(a.Items, a.Items[0].clone())
			add("dup-key-same", a)
			b := n.clone()
			b.Keys = append(b.Keys, b.Keys[0].clone())
			b.Items = append(b.Items, c05CNull())
			add("dup-key-null", b)
			b2 := n.clone()
			b2.Keys = append([]*c05Cnode{b2.Keys[len(b2.Keys)-1].clone()}, b2.Keys...)
			b2.Items = append([]*c05Cnode{c05CUint(0)}, b2.Items...)
			add("dup-key-first-int", b2)
			c := n.clone()
			for i := range c.Items {
				c.Items[i] = c05CNull()
			}
			add("all-null", c)
			d := n.clone()
			d.Keys = append(d.Keys, c05CText("zzUnknown"))
			d.Items = append(d.Items, c05CUint(7))
			add("extra-key", d)
			lazy("plus-many", func() *c05Cnode {
				e := n.clone()
				for i := 0; i < c05CManyCount(n.Items[0]); i++ {
					e.Keys = append(e.Keys, c05CText(fmt.Sprintf("k%04d", i)))
					e.Items = append(e.Items, n.Items[0])
				}
				return e
			})
			f := n.clone()
			f.Keys[0] = c05CText("")
			add("empty-key", f)
			g := n.clone()
			g.Keys, g.Items = g.Keys[:1], g.Items[:1]
			add("only-first", g)
			h := n.clone()
			for i := range h.Keys {
				h.Keys[i] = c05CUint(uint64(i))
			}
			add("int-keys", h)
			// as an array of the values (cbor "toarray" confusion)
			add("as-array", c05CArr(n.clone().Items...))
			enc := n.clone().encode()
			hl := len(c05CHead(5, uint64(len(n.Items))))
			add("count-plus1", c05CRaw(append(c05CHead(5, uint64(len(n.Items))+1), enc[hl:]...)))
		}
	default:
		if n.kind() == "bool" {
			add("bool-flip", c05CBool(n.Info == 20))
		}
	}
	return ms
}

// cManyCount: how many extra copies of an element make an "oversized" collection: 1000, but at most about 1 MiB in total
func c05CManyCount(elt *c05Cnode) int {
	sz := len(elt.encode()) + 8
	k := (1 << 20) / sz
	if k > 1000 {
		k = 1000
	}
	if k < 3 {
		k = 3
	}
	return k
}

// cCore: the seed-independent core of the catalogue (always run, also when the rest is sampled)
func c05CCore(name string) bool {
	switch name {
	case "absent", "null", "empty", "type-int", "type-bytes", "type-map", "len3", "short-1", "zero", "ones", "huge-array-2^32", "huge-bytes-2^62",
		"drop-last", "all-null", "plus-many", "dup-key-null", "int-0", "int-18446744073709551615", "int-minus1", "len4-ffffffff", "long-1M":
		return true
	}
	return false
}

// cCoreHeavy: the smaller seed-independent core used for the expensive (CMP) sessions in the quick tier
func c05CCoreHeavy(name string) bool {
	switch name {
	case "absent", "null", "empty", "type-map", "type-int", "len3", "zero", "huge-array-2^32", "all-null", "drop-last", "int-0":
		return true
	}
	return false
}

// c05CDiag renders a short diagnostic of a tree (for samples)
func c05CDiag(n *c05Cnode, depth int) string {
	if n == nil {
		return "?"
	}
	switch n.Major {
	case 0:
		return fmt.Sprintf("%d", n.Val)
	case 1:
		return fmt.Sprintf("-%d", n.Val+1)
	case 2:
		if n.Inner != nil {
			return fmt.Sprintf("h(%d)<<%s>>", len(n.Bytes), c05CDiag(n.Inner, depth+1))
		}
		return fmt.Sprintf("h(%d)", len(n.Bytes))
	case 3:
		return fmt.Sprintf("%q", string(n.Bytes))
	case 4:
		if depth > 3 || len(n.Items) > 6 {
			return fmt.Sprintf("[%d items]", len(n.Items))
		}
		s := "["
		for i, it := range n.Items {
			if i > 0 {
				s += ","
			}
			s += c05CDiag(it, depth+1)
		}
		return s + "]"
	case 5:
		if depth > 3 {
			return fmt.Sprintf("{%d}", len(n.Items))
		}
		s := "{"
		for i, it := range n.Items {
			if i > 0 {
				s += ","
			}
			s += n.Keys[i].keyLabel() + ":" + c05CDiag(it, depth+1)
		}
		return s + "}"
	case 6:
		return fmt.Sprintf("tag%d(%s)", n.Val, c05CDiag(n.Items[0], depth+1))
	}
	return n.kind()
}

func c05SortedKeys(m map[string]int) []string {
	ks := make([]string, 0, len(m))
	for k := range m {
		ks = append(ks, k)
	}
	sort.Strings(ks)
	return ks
}
