package main

// C13, executions that overlap in one process.
//
// The property quantifies over "repeated use of one setup with distinct nonces"; a signer that serves several
// signing sessions from one stored Doerner config runs exactly such multiplications AT THE SAME TIME. Three
// configurations, each a function of (mode, goroutines, iterations, seed):
//
//   shared-setup     G goroutines run complete honest multiplications over ONE correlated-OT setup, every
//                    multiplication with its own nonce. The setup is two arrays of bytes that the OT code only reads
//                    (checked under `go build -race`: no report on the unchanged tree), so sharing it is the
//                    library's own usage and the subject of the property.
//   separate-setups  every goroutine first runs its own correlated-OT setup (128 random OTs) and then multiplies on
//                    it: nothing is shared by the harness, whatever the executions share is inside the library.
//   doerner-sign     complete Doerner signing sessions (two multiplications per party each) driven through the real
//                    TwoPartyHandlers, one session per goroutine, every session on its own copies of the two configs
//                    restored from bytes (configs hold scalars and points, which are not safe to share).
//
// Oracle, as for the sequential cases: the run ends without error / panic and share_S + share_R = alpha*beta (the
// model's ot.mult_check and plain math/big), resp. the signature verifies under the reference verifier. The model
// calls are made after the goroutines have been joined (results are collected, then judged in a fixed order).
//
// Randomness: crypto/rand.Reader is one process-wide variable; for these runs it is a dispatcher that hands every
// registered goroutine its own seeded c13Reader, so each multiplication remains a function of its own case seed (the
// shares of a concurrent run equal those of the same case run alone; reported in the description of a failure).

import (
	crand "crypto/rand"
	"fmt"
	"io"
	"math/big"
	"math/rand"
	"runtime"
	"sync"

	"github.com/fxamacker/cbor/v2"

	"github.com/taurusgroup/multi-party-sig/pkg/ecdsa"
	"github.com/taurusgroup/multi-party-sig/pkg/protocol"
	"github.com/taurusgroup/multi-party-sig/protocols/doerner"

	"verifharness/sx"
)

// ---------------------------------------------------------------------------------------------
// per-goroutine deterministic randomness

func c13Goid() uint64 {
	var buf [64]byte
	n := runtime.Stack(buf[:], false)
	const pre = len("goroutine ")
	var id uint64
	for i := pre; i < n; i++ {
		ch := buf[i]
		if ch < '0' || ch > '9' {
			break
		}
		id = id*10 + uint64(ch-'0')
	}
	return id
}

// c13GoReader gives every registered goroutine its own reader; everybody else reads from def.
type c13GoReader struct {
	mu  sync.RWMutex
	by  map[uint64]io.Reader
	def io.Reader
}

func (g *c13GoReader) Read(p []byte) (int, error) {
	id := c13Goid()
	g.mu.RLock()
	r := g.by[id]
	g.mu.RUnlock()
	if r == nil {
		r = g.def
	}
	return r.Read(p)
}

func (g *c13GoReader) register(r io.Reader) {
	id := c13Goid()
	g.mu.Lock()
	g.by[id] = r
	g.mu.Unlock()
}

func (g *c13GoReader) unregister() {
	id := c13Goid()
	g.mu.Lock()
	delete(g.by, id)
	g.mu.Unlock()
}

// ---------------------------------------------------------------------------------------------
// configurations

type c13ConcJob struct {
	cs  c13Case
	out c13MulOut
	// setup outcome of the worker (separate-setups), "" when the worker's setup is fine
	setupOut string
}

// c13ConcPlan derives the jobs of a configuration from its seed alone.
func c13ConcPlan(cfg c13Case) (setupSeeds []int64, jobs [][]*c13ConcJob) {
	r := rand.New(rand.NewSource(cfg.Seed))
	zs, zn := c13Lattice(r, false)
	setupSeeds = make([]int64, cfg.Goroutines)
	for g := range setupSeeds {
		setupSeeds[g] = cfg.SetupSeed
		if cfg.Mode != "shared-setup" {
			setupSeeds[g] = r.Int63()
		}
	}
	jobs = make([][]*c13ConcJob, cfg.Goroutines)
	for g := range jobs {
		for i := 0; i < cfg.Iter; i++ {
			a, b := r.Intn(len(zs)), r.Intn(len(zs))
			if (g+i)%2 == 0 {
				a, b = len(zs)-1, len(zs)-1 // random * random
			}
			alpha, beta := zs[a], zs[b]
			if a == len(zs)-1 {
				alpha = randBig(r, 256)
				alpha.Mod(alpha, secpQ)
			}
			if b == len(zs)-1 {
				beta = randBig(r, 256)
				beta.Mod(beta, secpQ)
			}
			jobs[g] = append(jobs[g], &c13ConcJob{cs: c13Case{What: "multiply", SetupSeed: setupSeeds[g], Seed: r.Int63(),
				Nonce: fmt.Sprintf("cc%02x%04x", g, i), Alpha: c13Hex(alpha), Beta: c13Hex(beta), Op: zn[a] + "*" + zn[b]}})
		}
	}
	return
}

// c13ConcRun executes one configuration (modes shared-setup / separate-setups) and judges every multiplication.
// It returns the number of failed multiplications.
func (c *ctx) c13ConcRun(rd *c13Reader, cfg c13Case) int {
	setupSeeds, jobs := c13ConcPlan(cfg)
	var shared *c13Env
	if cfg.Mode == "shared-setup" {
		shared = c.c13NewEnv(rd, cfg.SetupSeed)
		if shared == nil {
			return 0 // reported by c13NewEnv
		}
	}
	defer c13Procs()()
	gr := &c13GoReader{by: map[uint64]io.Reader{}, def: rd}
	prev := crand.Reader
	crand.Reader = gr
	envs := make([]*c13Env, cfg.Goroutines)
	var wg sync.WaitGroup
	start := make(chan struct{})
	for g := 0; g < cfg.Goroutines; g++ {
		wg.Add(1)
		go func(g int) {
			defer wg.Done()
			own := &c13Reader{}
			own.seed(1)
			gr.register(own)
			defer gr.unregister()
			<-start
			e := &c13Env{c: c, rd: own, setupSeed: setupSeeds[g]}
			if shared != nil {
				e.ss, e.rs, e.delta = shared.ss, shared.rs, shared.delta
			} else {
				out := e.setupRun(c13Case{What: "setup", SetupSeed: setupSeeds[g]})
				if e.ss == nil || e.rs == nil {
					for _, j := range jobs[g] {
						j.setupOut = out
					}
					return
				}
			}
			envs[g] = e
			for _, j := range jobs[g] {
				j.out = e.multiply(j.cs, false, false)
			}
		}(g)
	}
	close(start)
	wg.Wait()
	crand.Reader = prev

	// judge, in a fixed order
	failed, total := 0, 0
	var first *c13ConcJob
	firstKey, firstDesc := "", ""
	class := fmt.Sprintf("concurrent/%s/g=%d", cfg.Mode, cfg.Goroutines)
	for g := range jobs {
		for i, j := range jobs[g] {
			total++
			alpha, beta := c13UnHex(j.cs.Alpha), c13UnHex(j.cs.Beta)
			c.res.Case(class, fmt.Sprintf("%s/%d/%d/%d/%d", cfg.Mode, cfg.Goroutines, cfg.Seed, g, i), alpha.Sign() != 0 || beta.Sign() != 0)
			key, desc := "", ""
			switch {
			case j.setupOut != "":
				key = "C13/concurrent/" + cfg.Mode + "/setup-" + c13Short(j.setupOut)
				desc = "honest correlated-OT setup run next to other setups does not complete: " + j.setupOut
			case j.out.Outcome != "ok":
				key = "C13/concurrent/" + cfg.Mode + "/honest-" + c13Short(j.out.Outcome)
				desc = "honest multiplication run next to other multiplications does not complete: " + j.out.Outcome
			default:
				prod := new(big.Int).Mul(alpha, beta)
				prod.Mod(prod, secpQ)
				sum := new(big.Int).Add(j.out.SS, j.out.SR)
				sum.Mod(sum, secpQ)
				plain := sum.Cmp(prod) == 0
				rep, err := c.m.Call("ot.mult_check", sx.List(sx.Big(secpQ), sx.Big(alpha), sx.Big(beta), sx.Big(j.out.SS), sx.Big(j.out.SR)))
				if err != nil {
					c.c13ModelErr("ot.mult_check", err, j.cs)
					continue
				}
				c.res.Corr(rep.AsBool() == plain)
				if rep.AsBool() != plain {
					c.res.Violate("correspondence", "C13/mult-check-oracles-disagree", "model checker and big.Int checker disagree on share_S + share_R = alpha*beta", j.cs)
				}
				if !rep.AsBool() || !plain {
					key = "C13/concurrent/" + cfg.Mode + "/wrong-product"
					desc = fmt.Sprintf("multiplication run next to other multiplications: share_S + share_R != alpha*beta (share_S=%s share_R=%s)", c13Hex(j.out.SS), c13Hex(j.out.SR))
				}
			}
			if key == "" {
				continue
			}
			failed++
			if first == nil {
				first, firstKey, firstDesc = j, key, fmt.Sprintf("worker %d, multiplication %d (alpha=%s beta=%s nonce=%s): %s", g, i, j.cs.Alpha, j.cs.Beta, j.cs.Nonce, desc)
				// the same case alone, on the same setup, with the same randomness
				if e := envs[g]; e != nil {
					e1 := *e
					e1.rd = rd
					alone := e1.multiply(j.cs, false, false)
					verdict := alone.Outcome
					if alone.Outcome == "ok" {
						s := new(big.Int).Add(alone.SS, alone.SR)
						p := new(big.Int).Mul(alpha, beta)
						if s.Mod(s, secpQ).Cmp(p.Mod(p, secpQ)) == 0 {
							verdict = "ok, correct product"
						} else {
							verdict = "ok, wrong product"
						}
					}
					firstDesc += "; the same case run alone afterwards: " + verdict
				}
			}
		}
	}
	if first != nil {
		rp := cfg
		rp.Alpha, rp.Beta, rp.Nonce = first.cs.Alpha, first.cs.Beta, first.cs.Nonce
		rp.Observed = fmt.Sprintf("%d of %d multiplications failed; first: %s", failed, total, firstDesc)
		c.res.Violate("property", firstKey, firstDesc+fmt.Sprintf(" (%d of %d multiplications of the configuration failed)", failed, total), rp)
	}
	return failed
}

// c13ConcAll: the configurations of a run.
func (c *ctx) c13ConcAll(rd *c13Reader, r *rand.Rand) {
	type kc struct {
		mode    string
		g, iter int
	}
	cfgs := []kc{{"shared-setup", 8, 6}, {"shared-setup", 3, 6}, {"shared-setup", 16, 3}, {"separate-setups", 6, 3}}
	if c.thorough() {
		cfgs = []kc{{"shared-setup", 16, 20}, {"shared-setup", 8, 20}, {"shared-setup", 2, 40}, {"shared-setup", 32, 10},
			{"separate-setups", 16, 6}, {"separate-setups", 4, 10}}
	}
	for _, k := range cfgs {
		cfg := c13Case{What: "concurrent", Mode: k.mode, Goroutines: k.g, Iter: k.iter, Seed: r.Int63(), SetupSeed: r.Int63()}
		c.c13ConcRun(rd, cfg)
	}
	c.c13ConcDoerner(c13Case{What: "concurrent", Mode: "doerner-sign", Goroutines: pickInt(c.thorough(), 4, 12), Iter: pickInt(c.thorough(), 1, 3), Seed: r.Int63()})
}

// c13Procs: the overlapping runs are meant to run in parallel even when the process was started with a small
// GOMAXPROCS; the returned function restores the setting.
func c13Procs() func() {
	prev := runtime.GOMAXPROCS(0)
	if prev >= 8 {
		return func() {}
	}
	runtime.GOMAXPROCS(8)
	return func() { runtime.GOMAXPROCS(prev) }
}

// `vh C13RACE`: only the overlapping configurations -- meant for a binary built with -race (as C17RACE is): the
// race detector then reports unsynchronised state shared between executions whether or not a run happens to hit it.
func init() { props["C13RACE"] = runC13Race }

func runC13Race(c *ctx) {
	c.res.Rule = "overlapping honest multiplications / correlated-OT setups / Doerner signing sessions (c13_conc.go), to be run under the race detector"
	old := crand.Reader
	rd := &c13Reader{}
	rd.seed(c.res.Rng.Int63())
	crand.Reader = rd
	defer func() { crand.Reader = old }()
	c.m.MaxLog = 0
	c13Outcomes = map[string]map[string]int{}
	c.c13ConcAll(rd, c.res.Rng)
}

func pickInt(th bool, q, t int) int {
	if th {
		return t
	}
	return q
}

// c13ConcReplay re-runs a configuration; a failure that needs an overlap depends on the scheduler, so the
// configuration is repeated (same seeds) until it fails, at most 20 times.
func (c *ctx) c13ConcReplay(rd *c13Reader, cs c13Case) {
	cs.Alpha, cs.Beta, cs.Nonce, cs.Observed = "", "", "", ""
	for k := 0; k < 20; k++ {
		before := len(c.res.Violations)
		if cs.Mode == "doerner-sign" {
			c.c13ConcDoerner(cs)
		} else {
			c.c13ConcRun(rd, cs)
		}
		if len(c.res.Violations) > before {
			fmt.Printf("replay outcome: failed in repetition %d\n", k+1)
			return
		}
	}
	fmt.Println("replay outcome: 20 repetitions of the configuration, no failure")
}

// ---------------------------------------------------------------------------------------------
// Doerner signing sessions at the same time

// c13TwoParty drives two TwoPartyHandlers against each other on the calling goroutine.
func c13TwoParty(startR, startS protocol.StartFunc, sid []byte, leadR, leadS bool) (resR, resS interface{}, problem string) {
	defer func() {
		if r := recover(); r != nil {
			problem = "panic: " + fmt.Sprint(r)
		}
	}()
	hR, err := protocol.NewTwoPartyHandler(startR, sid, leadR)
	if err != nil {
		return nil, nil, "receiver cannot start: " + err.Error()
	}
	hS, err := protocol.NewTwoPartyHandler(startS, sid, leadS)
	if err != nil {
		return nil, nil, "sender cannot start: " + err.Error()
	}
	hs := [2]*protocol.TwoPartyHandler{hR, hS}
	closed := [2]bool{}
	for step := 0; step < 200 && !(closed[0] && closed[1]); step++ {
		progress := false
		for w := 0; w < 2; w++ {
			if closed[w] {
				continue
			}
			ch := hs[w].Listen()
		drain:
			for {
				select {
				case m, ok := <-ch:
					if !ok {
						closed[w] = true
						progress = true
						break drain
					}
					progress = true
					hs[1-w].Accept(m)
				default:
					break drain
				}
			}
		}
		if !progress {
			break
		}
	}
	var e1, e2 error
	resR, e1 = hR.Result()
	resS, e2 = hS.Result()
	if e1 != nil {
		problem = "receiver: " + e1.Error()
	} else if e2 != nil {
		problem = "sender: " + e2.Error()
	}
	return
}

type c13DoernerJob struct {
	msg     []byte
	sid     []byte
	sig     *ecdsa.Signature
	problem string
}

// c13ConcDoerner: one key generation, then cfg.Goroutines goroutines x cfg.Iter signing sessions at the same time;
// every goroutine restores its own copies of the two configs from bytes.
func (c *ctx) c13ConcDoerner(cfg c13Case) int {
	r := rand.New(rand.NewSource(cfg.Seed))
	rdMain, _ := crand.Reader.(*c13Reader)
	if rdMain != nil {
		rdMain.seed(r.Int63())
	}
	ids := idsOf("recv", "send")
	rr, rs, prob := c13TwoParty(doerner.Keygen(c13Group, true, ids[0], ids[1], nil), doerner.Keygen(c13Group, false, ids[1], ids[0], nil), []byte("c13-conc-keygen"), true, false)
	cr, ok1 := rr.(*doerner.ConfigReceiver)
	cs, ok2 := rs.(*doerner.ConfigSender)
	if !ok1 || !ok2 {
		c.res.Note("concurrent doerner: key generation did not complete (%s); signing sessions skipped", prob)
		return 0
	}
	bR, e1 := cbor.Marshal(cr)
	bS, e2 := cbor.Marshal(cs)
	if e1 != nil || e2 != nil {
		c.res.Note("concurrent doerner: configs cannot be serialised: %v %v", e1, e2)
		return 0
	}
	jobs := make([][]*c13DoernerJob, cfg.Goroutines)
	seeds := make([]int64, cfg.Goroutines)
	for g := range jobs {
		seeds[g] = r.Int63()
		for i := 0; i < cfg.Iter; i++ {
			jobs[g] = append(jobs[g], &c13DoernerJob{msg: randBytes(r, 32), sid: []byte(fmt.Sprintf("c13-conc-sign-%d-%d", g, i))})
		}
	}
	defer c13Procs()()
	gr := &c13GoReader{by: map[uint64]io.Reader{}, def: crand.Reader}
	prev := crand.Reader
	crand.Reader = gr
	var wg sync.WaitGroup
	start := make(chan struct{})
	for g := 0; g < cfg.Goroutines; g++ {
		wg.Add(1)
		go func(g int) {
			defer wg.Done()
			own := &c13Reader{}
			own.seed(seeds[g])
			gr.register(own)
			defer gr.unregister()
			myR, myS := doerner.EmptyConfigReceiver(c13Group), doerner.EmptyConfigSender(c13Group)
			if err := cbor.Unmarshal(bR, myR); err != nil {
				for _, j := range jobs[g] {
					j.problem = "restore receiver config: " + err.Error()
				}
				return
			}
			if err := cbor.Unmarshal(bS, myS); err != nil {
				for _, j := range jobs[g] {
					j.problem = "restore sender config: " + err.Error()
				}
				return
			}
			<-start
			for _, j := range jobs[g] {
				res, _, p := c13TwoParty(doerner.SignReceiver(myR, ids[0], ids[1], j.msg, nil), doerner.SignSender(myS, ids[1], ids[0], j.msg, nil), j.sid, true, true)
				j.problem = p
				if sig, ok := res.(*ecdsa.Signature); ok {
					j.sig = sig
				} else if p == "" {
					j.problem = "the receiver returned no signature"
				}
			}
		}(g)
	}
	close(start)
	wg.Wait()
	crand.Reader = prev

	failed, total := 0, 0
	first := ""
	for g := range jobs {
		for i, j := range jobs[g] {
			total++
			c.res.Case(fmt.Sprintf("concurrent/doerner-sign/g=%d", cfg.Goroutines), fmt.Sprintf("doerner/%d/%d/%d", cfg.Seed, g, i), true)
			p := j.problem
			if p == "" {
				v, why := c.verifyAnySignature(cr.Public, j.sig, j.msg)
				c.res.Corr(v)
				if !v {
					p = "the signature is invalid under the reference verifier " + why
				}
			}
			if p != "" {
				failed++
				if first == "" {
					first = fmt.Sprintf("worker %d, session %d (message %x): %s", g, i, j.msg, p)
				}
			}
		}
	}
	if first != "" {
		rp := cfg
		rp.Observed = fmt.Sprintf("%d of %d sessions failed; first: %s", failed, total, first)
		c.res.Violate("property", "C13/concurrent/doerner-sign/honest-session-fails",
			"honest Doerner signing sessions (two OT multiplications per party) run at the same time in one process, every session on its own copies of the configs: "+
				first+fmt.Sprintf(" (%d of %d sessions failed)", failed, total), rp)
	}
	return failed
}
