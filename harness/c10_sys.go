package main

// C10: per-system glue -- statement generation (math/big only), the library's prover and verifier fed from / read back
// into the model's value layout (coq/Model/DispatchZK.v), honest prover randomness for the model's prover, nil probes
// and the special probes (panics of unguarded verifiers, zkfac's unbound Sigma, zkmod's unchecked response range).

import (
	"fmt"
	"math/big"
	"math/rand"

	"github.com/taurusgroup/multi-party-sig/pkg/hash"
	"github.com/taurusgroup/multi-party-sig/pkg/math/curve"
	"github.com/taurusgroup/multi-party-sig/pkg/verifhook"
	zkaffg "github.com/taurusgroup/multi-party-sig/pkg/zk/affg"
	zkaffp "github.com/taurusgroup/multi-party-sig/pkg/zk/affp"
	zkdec "github.com/taurusgroup/multi-party-sig/pkg/zk/dec"
	zkelog "github.com/taurusgroup/multi-party-sig/pkg/zk/elog"
	zkenc "github.com/taurusgroup/multi-party-sig/pkg/zk/enc"
	zkencelg "github.com/taurusgroup/multi-party-sig/pkg/zk/encelg"
	zkfac "github.com/taurusgroup/multi-party-sig/pkg/zk/fac"
	zklog "github.com/taurusgroup/multi-party-sig/pkg/zk/log"
	zklogstar "github.com/taurusgroup/multi-party-sig/pkg/zk/logstar"
	zkmod "github.com/taurusgroup/multi-party-sig/pkg/zk/mod"
	zkmul "github.com/taurusgroup/multi-party-sig/pkg/zk/mul"
	zkmulstar "github.com/taurusgroup/multi-party-sig/pkg/zk/mulstar"
	zknth "github.com/taurusgroup/multi-party-sig/pkg/zk/nth"
	zkprm "github.com/taurusgroup/multi-party-sig/pkg/zk/prm"
	zksch "github.com/taurusgroup/multi-party-sig/pkg/zk/sch"

	"verifharness/sx"
)

type bigs = map[string]*big.Int

var lat = latticeClasses
var latNoZero = []string{"one", "minus-one", "max", "min", "pow", "neg-pow", "random", "random2"}

func randScalarNZ(r *rand.Rand) *big.Int {
	for {
		z := bMod(randBig(r, 256), secpQ)
		if z.Sign() != 0 {
			return z
		}
	}
}

func pedZs(k *zkKeys) []sx.V { return zs(k.nh, k.s, k.t) }

// masks of the honest samplers
func mLEps(r *rand.Rand) *big.Int  { return randSigned(r, 768) }
func mLpEps(r *rand.Rand) *big.Int { return randSigned(r, 1792) }
func mLN(r *rand.Rand) *big.Int    { return randSigned(r, 256+2048) }
func mLEpsN(r *rand.Rand) *big.Int { return randSigned(r, 768+2048) }

func intsOf(v sx.V, idx ...int) []*big.Int {
	out := make([]*big.Int, len(idx))
	for i, j := range idx {
		out[i] = v.L[j].Z
	}
	return out
}

func zkDefs() []*zkDef {
	return []*zkDef{defSch(), defLog(), defElog(), defNth(), defEnc(), defLogstar(), defDec(), defMul(), defAffg(), defAffp(),
		defMulstar(), defEncelg(), defFac(), defPrm(), defMod()}
}

// ------------------------------------------------------------------------------------------------------------ sch
func defSch() *zkDef {
	build := func(com, resp sx.V) *zksch.Proof {
		p := zksch.EmptyProof(zkGroup)
		p.C.C = sxPt(com.L[0])
		p.Z.Z = scalarOfBig(resp.L[0].Z)
		return p
	}
	genOf := func(pub sx.V) curve.Point {
		// the base point is passed as nil half of the time (NewProof / Verify substitute it)
		g := sxPt(pub.L[0])
		if g.Equal(zkGroup.NewBasePoint()) && len(pub.L[1].L) == 2 && pub.L[1].L[0].Z.Bit(0) == 0 {
			return nil
		}
		return g
	}
	return &zkDef{name: "sch", eKind: eScalar, pubK: "pp", comK: "p", respK: "c", classes: latNoZero,
		gen: func(g *zkGen, k *zkKeys, class string) *zkInst {
			x := latticeScalar(g.r, class)
			if x.Sign() == 0 {
				x = big.NewInt(3)
			}
			gen := zkGroup.NewBasePoint()
			if g.r.Intn(2) == 0 {
				gen = ptMulBase(randScalarNZ(g.r))
			}
			X := ptMul(x, gen)
			return &zkInst{pub: sx.List(ptSx(gen), ptSx(X)), wit: sx.List(ptSx(gen), sx.Big(x)), priv: bigs{"x": x}}
		},
		goProve: func(inst *zkInst, h *hash.Hash) (sx.V, sx.V) {
			p := zksch.NewProof(h, sxPt(inst.pub.L[1]), scalarOfBig(inst.priv.(bigs)["x"]), genOf(inst.pub))
			return sx.List(ptSx(p.C.C)), sx.List(sx.Big(bigOfScalar(p.Z.Z)))
		},
		goVerif: func(pub, com, resp sx.V, h *hash.Hash, nf string) bool {
			p := build(com, resp)
			switch nf {
			case "C.C":
				p.C.C = nil
			case "Z.Z":
				p.Z.Z = nil
			case "proof":
				p = nil
			}
			return p.Verify(h, sxPt(pub.L[1]), genOf(pub))
		},
		rnd:     func(g *zkGen, inst *zkInst) []sx.V { return zs(randScalarNZ(g.r)) },
		nilable: []string{"C.C", "Z.Z", "proof"},
	}
}

// ------------------------------------------------------------------------------------------------------------ log
func defLog() *zkDef {
	pubOf := func(pub sx.V) zklog.Public {
		return zklog.Public{H: sxPt(pub.L[0]), X: sxPt(pub.L[1]), Y: sxPt(pub.L[2])}
	}
	return &zkDef{name: "log", eKind: eScalar, pubK: "ppp", comK: "ppp", respK: "cc", classes: lat,
		gen: func(g *zkGen, k *zkKeys, class string) *zkInst {
			a := latticeScalar(g.r, class)
			b := latticeScalar(g.r, latNoZero[g.r.Intn(len(latNoZero))])
			if b.Sign() == 0 {
				b = big.NewInt(5)
			}
			H := ptMulBase(b)
			return &zkInst{pub: sx.List(ptSx(H), ptSx(ptMulBase(a)), ptSx(ptMul(a, H))), wit: sx.List(ptSx(H), sx.Big(a), sx.Big(b)),
				priv: bigs{"a": a, "b": b}}
		},
		goProve: func(inst *zkInst, h *hash.Hash) (sx.V, sx.V) {
			w := inst.priv.(bigs)
			p := zklog.NewProof(zkGroup, h, pubOf(inst.pub), zklog.Private{A: scalarOfBig(w["a"]), B: scalarOfBig(w["b"])})
			return sx.List(ptSx(p.A), ptSx(p.B), ptSx(p.C)), sx.List(sx.Big(bigOfScalar(p.Z1)), sx.Big(bigOfScalar(p.Z2)))
		},
		goVerif: func(pub, com, resp sx.V, h *hash.Hash, nf string) bool {
			p := zklog.Empty(zkGroup)
			p.A, p.B, p.C = sxPt(com.L[0]), sxPt(com.L[1]), sxPt(com.L[2])
			p.Z1, p.Z2 = scalarOfBig(resp.L[0].Z), scalarOfBig(resp.L[1].Z)
			switch nf {
			case "Commitment":
				p.Commitment = nil
			case "A":
				p.A = nil
			case "Z1":
				p.Z1 = nil
			case "Z2":
				p.Z2 = nil
			case "proof":
				p = nil
			}
			return p.Verify(h, pubOf(pub))
		},
		rnd:     func(g *zkGen, inst *zkInst) []sx.V { return zs(randScalarNZ(g.r), randScalarNZ(g.r)) },
		nilable: []string{"Commitment", "A", "Z1", "Z2", "proof"},
	}
}

// ------------------------------------------------------------------------------------------------------------ elog
func defElog() *zkDef {
	pubOf := func(pub sx.V) zkelog.Public {
		return zkelog.Public{E: &verifhook.ElGamalCiphertext{L: sxPt(pub.L[0]), M: sxPt(pub.L[1])}, ElGamalPublic: sxPt(pub.L[2]),
			Base: sxPt(pub.L[3]), Y: sxPt(pub.L[4])}
	}
	return &zkDef{name: "elog", eKind: eScalar, pubK: "ppppp", comK: "ppp", respK: "cc", classes: lat, degenerate: map[string]bool{"zero": true},
		gen: func(g *zkGen, k *zkKeys, class string) *zkInst {
			y := latticeScalar(g.r, class)
			lambda := latticeScalar(g.r, lat[g.r.Intn(len(lat))])
			X := ptMulBase(randScalarNZ(g.r))
			H := ptMulBase(randScalarNZ(g.r))
			L := ptMulBase(lambda)
			M := ptMulBase(y).Add(ptMul(lambda, X))
			return &zkInst{pub: sx.List(ptSx(L), ptSx(M), ptSx(X), ptSx(H), ptSx(ptMul(y, H))),
				wit: sx.List(ptSx(X), ptSx(H), sx.Big(y), sx.Big(lambda)), priv: bigs{"y": y, "lambda": lambda}}
		},
		goProve: func(inst *zkInst, h *hash.Hash) (sx.V, sx.V) {
			w := inst.priv.(bigs)
			p := zkelog.NewProof(zkGroup, h, pubOf(inst.pub), zkelog.Private{Y: scalarOfBig(w["y"]), Lambda: scalarOfBig(w["lambda"])})
			return sx.List(ptSx(p.A), ptSx(p.N), ptSx(p.B)), sx.List(sx.Big(bigOfScalar(p.Z)), sx.Big(bigOfScalar(p.U)))
		},
		goVerif: func(pub, com, resp sx.V, h *hash.Hash, nf string) bool {
			p := zkelog.Empty(zkGroup)
			p.A, p.N, p.B = sxPt(com.L[0]), sxPt(com.L[1]), sxPt(com.L[2])
			p.Z, p.U = scalarOfBig(resp.L[0].Z), scalarOfBig(resp.L[1].Z)
			pb := pubOf(pub)
			switch nf {
			case "Commitment":
				p.Commitment = nil
			case "N":
				p.N = nil
			case "Z":
				p.Z = nil
			case "public.E":
				pb.E = nil
			case "proof":
				p = nil
			}
			return p.Verify(h, pb)
		},
		rnd:     func(g *zkGen, inst *zkInst) []sx.V { return zs(randScalarNZ(g.r), randScalarNZ(g.r)) },
		nilable: []string{"Commitment", "N", "Z", "public.E", "proof"},
	}
}

// ------------------------------------------------------------------------------------------------------------ nth
func defNth() *zkDef {
	return &zkDef{name: "nth", procs: 1, eKind: eInterval, pubK: "mn", comK: "n", respK: "n",
		classes: []string{"one", "two", "max", "random", "random2"}, degenerate: map[string]bool{"one": true, "max": true}, // rho = 1, rho = -1: R^e takes at most two values
		gen: func(g *zkGen, k *zkKeys, class string) *zkInst {
			var rho *big.Int
			switch class {
			case "one":
				rho = big.NewInt(1)
			case "two":
				rho = big.NewInt(2)
			case "max":
				rho = bSub(k.n1, bigOne)
			default:
				rho = randUnit(g.r, k.n1)
			}
			R := new(big.Int).Exp(rho, k.n1, bMul(k.n1, k.n1))
			return &zkInst{pub: sx.List(zs(k.n1, R)...), wit: sx.List(zs(k.n1, rho)...), priv: bigs{"rho": rho}}
		},
		goProve: func(inst *zkInst, h *hash.Hash) (sx.V, sx.V) {
			pk := inst.keys.skProver.PublicKey
			p := zknth.NewProof(h, zknth.Public{N: pk, R: natBits(inst.pub.L[1].Z, 4096)}, zknth.Private{Rho: natBits(inst.priv.(bigs)["rho"], 2048)})
			return sx.List(sx.Big(p.A.Big())), sx.List(sx.Big(p.Z.Big()))
		},
		goVerif: func(pub, com, resp sx.V, h *hash.Hash, nf string) bool {
			p := &zknth.Proof{Commitment: zknth.Commitment{A: natBits(com.L[0].Z, 4096)}, Z: natBits(resp.L[0].Z, 2048)}
			switch nf {
			case "A":
				p.A = nil
			case "Z":
				p.Z = nil
			}
			return p.Verify(h, zknth.Public{N: pkOfBig(pub.L[0].Z), R: natBits(pub.L[1].Z, 4096)})
		},
		rnd:     func(g *zkGen, inst *zkInst) []sx.V { return zs(randUnit(g.r, inst.keys.n1)) },
		nilable: []string{"A", "Z"},
	}
}

// ------------------------------------------------------------------------------------------------------------ enc
func defEnc() *zkDef {
	pubOf := func(pub sx.V) zkenc.Public {
		return zkenc.Public{K: ctOfBig(pub.L[4].Z), Prover: pkOfBig(pub.L[3].Z), Aux: pedOfBig(pub.L[0].Z, pub.L[1].Z, pub.L[2].Z)}
	}
	return &zkDef{name: "enc", procs: 2, eKind: eInterval, pubK: "mnnmn", comK: "nnn", respK: "ini", classes: lat,
		gen: func(g *zkGen, k *zkKeys, class string) *zkInst {
			x := latticeValue(g.r, class, 256)
			rho := randUnit(g.r, k.n1)
			return &zkInst{pub: cat(pedZs(k), zs(k.n1, encB(k.n1, x, rho))), wit: cat(pedZs(k), zs(k.n1, x, rho)), priv: bigs{"k": x, "rho": rho}}
		},
		goProve: func(inst *zkInst, h *hash.Hash) (sx.V, sx.V) {
			w := inst.priv.(bigs)
			pb := pubOf(inst.pub)
			pb.Prover = inst.keys.skProver.PublicKey
			p := zkenc.NewProof(zkGroup, h, pb, zkenc.Private{K: intOfBig(w["k"]), Rho: natBits(w["rho"], 2048)})
			return sx.List(zs(p.S.Big(), bigOfCt(p.A), p.C.Big())...), sx.List(zs(p.Z1.Big(), p.Z2.Big(), p.Z3.Big())...)
		},
		goVerif: func(pub, com, resp sx.V, h *hash.Hash, nf string) bool {
			p := &zkenc.Proof{Commitment: &zkenc.Commitment{S: natBits(com.L[0].Z, 2048), A: ctOfBig(com.L[1].Z), C: natBits(com.L[2].Z, 2048)},
				Z1: intOfBig(resp.L[0].Z), Z2: natBits(resp.L[1].Z, 2048), Z3: intOfBig(resp.L[2].Z)}
			switch nf {
			case "Commitment":
				p.Commitment = nil
			case "S":
				p.S = nil
			case "A":
				p.A = nil
			case "C":
				p.C = nil
			case "Z1":
				p.Z1 = nil
			case "Z2":
				p.Z2 = nil
			case "Z3":
				p.Z3 = nil
			}
			return p.Verify(zkGroup, h, pubOf(pub))
		},
		rnd: func(g *zkGen, inst *zkInst) []sx.V {
			return zs(mLEps(g.r), randUnit(g.r, inst.keys.n1), mLN(g.r), mLEpsN(g.r))
		},
		ranges:  []respRange{{idx: 0, bits: 768, rnd: 0, wit: []int{4}}},
		nilable: []string{"Commitment", "S", "A", "C", "Z1", "Z2", "Z3"},
	}
}

// ------------------------------------------------------------------------------------------------------------ logstar
func defLogstar() *zkDef {
	pubOf := func(pub sx.V) zklogstar.Public {
		pb := zklogstar.Public{C: ctOfBig(pub.L[4].Z), X: sxPt(pub.L[5]), G: sxPt(pub.L[6]), Prover: pkOfBig(pub.L[3].Z),
			Aux: pedOfBig(pub.L[0].Z, pub.L[1].Z, pub.L[2].Z)}
		if pb.G.Equal(zkGroup.NewBasePoint()) && pub.L[4].Z.Bit(0) == 0 {
			pb.G = nil
		}
		return pb
	}
	return &zkDef{name: "logstar", procs: 2, eKind: eInterval, pubK: "mnnmnpp", comK: "nnpn", respK: "ini", classes: lat,
		gen: func(g *zkGen, k *zkKeys, class string) *zkInst {
			x := latticeValue(g.r, class, 256)
			rho := randUnit(g.r, k.n1)
			gb := zkGroup.NewBasePoint()
			if g.r.Intn(2) == 0 {
				gb = ptMulBase(randScalarNZ(g.r))
			}
			return &zkInst{pub: cat(pedZs(k), zs(k.n1, encB(k.n1, x, rho)), []sx.V{ptSx(ptMul(x, gb)), ptSx(gb)}),
				wit: cat(pedZs(k), zs(k.n1), []sx.V{ptSx(gb)}, zs(x, rho)), priv: bigs{"x": x, "rho": rho}}
		},
		goProve: func(inst *zkInst, h *hash.Hash) (sx.V, sx.V) {
			w := inst.priv.(bigs)
			pb := pubOf(inst.pub)
			pb.Prover = inst.keys.skProver.PublicKey
			p := zklogstar.NewProof(zkGroup, h, pb, zklogstar.Private{X: intOfBig(w["x"]), Rho: natBits(w["rho"], 2048)})
			return sx.List(sx.Big(p.S.Big()), sx.Big(bigOfCt(p.A)), ptSx(p.Y), sx.Big(p.D.Big())), sx.List(zs(p.Z1.Big(), p.Z2.Big(), p.Z3.Big())...)
		},
		goVerif: func(pub, com, resp sx.V, h *hash.Hash, nf string) bool {
			p := zklogstar.Empty(zkGroup)
			p.S, p.A, p.Y, p.D = natBits(com.L[0].Z, 2048), ctOfBig(com.L[1].Z), sxPt(com.L[2]), natBits(com.L[3].Z, 2048)
			p.Z1, p.Z2, p.Z3 = intOfBig(resp.L[0].Z), natBits(resp.L[1].Z, 2048), intOfBig(resp.L[2].Z)
			switch nf {
			case "Commitment":
				p.Commitment = nil
			case "S":
				p.S = nil
			case "A":
				p.A = nil
			case "Y":
				p.Y = nil
			case "D":
				p.D = nil
			case "Z1":
				p.Z1 = nil
			case "Z2":
				p.Z2 = nil
			case "Z3":
				p.Z3 = nil
			}
			return p.Verify(h, pubOf(pub))
		},
		rnd: func(g *zkGen, inst *zkInst) []sx.V {
			return zs(mLEps(g.r), randUnit(g.r, inst.keys.n1), mLN(g.r), mLEpsN(g.r))
		},
		ranges:  []respRange{{idx: 0, bits: 768, rnd: 0, wit: []int{5}}},
		nilable: []string{"Commitment", "S", "A", "Y", "D", "Z1", "Z2", "Z3"},
	}
}

// ------------------------------------------------------------------------------------------------------------ dec
func defDec() *zkDef {
	pubOf := func(pub sx.V) zkdec.Public {
		return zkdec.Public{C: ctOfBig(pub.L[4].Z), X: scalarOfBig(pub.L[5].Z), Prover: pkOfBig(pub.L[3].Z),
			Aux: pedOfBig(pub.L[0].Z, pub.L[1].Z, pub.L[2].Z)}
	}
	return &zkDef{name: "dec", procs: 2, eKind: eInterval, pubK: "mnnmnc", comK: "nnnc", respK: "iin", classes: append(append([]string{}, lat...), "large"),
		gen: func(g *zkGen, k *zkKeys, class string) *zkInst {
			var y *big.Int
			if class == "large" {
				y = randSigned(g.r, 1500)
			} else {
				y = latticeValue(g.r, class, 256)
			}
			rho := randUnit(g.r, k.n1)
			return &zkInst{pub: cat(pedZs(k), zs(k.n1, encB(k.n1, y, rho), bMod(y, secpQ))), wit: cat(pedZs(k), zs(k.n1, y, rho)),
				priv: bigs{"y": y, "rho": rho}}
		},
		goProve: func(inst *zkInst, h *hash.Hash) (sx.V, sx.V) {
			w := inst.priv.(bigs)
			pb := pubOf(inst.pub)
			pb.Prover = inst.keys.skProver.PublicKey
			p := zkdec.NewProof(zkGroup, h, pb, zkdec.Private{Y: intOfBig(w["y"]), Rho: natBits(w["rho"], 2048)})
			return sx.List(zs(p.S.Big(), p.T.Big(), bigOfCt(p.A), bigOfScalar(p.Gamma))...), sx.List(zs(p.Z1.Big(), p.Z2.Big(), p.W.Big())...)
		},
		goVerif: func(pub, com, resp sx.V, h *hash.Hash, nf string) bool {
			p := zkdec.Empty(zkGroup)
			p.S, p.T, p.A, p.Gamma = natBits(com.L[0].Z, 2048), natBits(com.L[1].Z, 2048), ctOfBig(com.L[2].Z), scalarOfBig(com.L[3].Z)
			p.Z1, p.Z2, p.W = intOfBig(resp.L[0].Z), intOfBig(resp.L[1].Z), natBits(resp.L[2].Z, 2048)
			switch nf {
			case "Commitment":
				p.Commitment = nil
			case "S":
				p.S = nil
			case "T":
				p.T = nil
			case "A":
				p.A = nil
			case "Gamma":
				p.Gamma = nil
			case "Z1":
				p.Z1 = nil
			case "Z2":
				p.Z2 = nil
			case "W":
				p.W = nil
			}
			return p.Verify(h, pubOf(pub))
		},
		rnd: func(g *zkGen, inst *zkInst) []sx.V {
			return zs(mLEps(g.r), mLN(g.r), mLEpsN(g.r), randUnit(g.r, inst.keys.n1))
		},
		nilable: []string{"Commitment", "S", "T", "A", "Gamma", "Z1", "Z2", "W"},
	}
}

// ------------------------------------------------------------------------------------------------------------ mul
func defMul() *zkDef {
	pubOf := func(pub sx.V) zkmul.Public {
		return zkmul.Public{X: ctOfBig(pub.L[1].Z), Y: ctOfBig(pub.L[2].Z), C: ctOfBig(pub.L[3].Z), Prover: pkOfBig(pub.L[0].Z)}
	}
	return &zkDef{name: "mul", procs: 2, eKind: eInterval, pubK: "mnnn", comK: "nn", respK: "inn", classes: lat,
		gen: func(g *zkGen, k *zkKeys, class string) *zkInst {
			x := latticeValue(g.r, class, 256)
			rhox, rho := randUnit(g.r, k.n1), randUnit(g.r, k.n1)
			n2 := bMul(k.n1, k.n1)
			Y := encB(k.n1, randSigned(g.r, 256), randUnit(g.r, k.n1))
			C := bMulMod(expIB(n2, Y, x), new(big.Int).Exp(rho, k.n1, n2), n2)
			return &zkInst{pub: sx.List(zs(k.n1, encB(k.n1, x, rhox), Y, C)...), wit: sx.List(zs(k.n1, Y, x, rho, rhox)...),
				priv: bigs{"x": x, "rho": rho, "rhox": rhox}}
		},
		goProve: func(inst *zkInst, h *hash.Hash) (sx.V, sx.V) {
			w := inst.priv.(bigs)
			pb := pubOf(inst.pub)
			pb.Prover = inst.keys.skProver.PublicKey
			p := zkmul.NewProof(zkGroup, h, pb, zkmul.Private{X: intOfBig(w["x"]), Rho: natBits(w["rho"], 2048), RhoX: natBits(w["rhox"], 2048)})
			return sx.List(zs(bigOfCt(p.A), bigOfCt(p.B))...), sx.List(zs(p.Z.Big(), p.U.Big(), p.V.Big())...)
		},
		goVerif: func(pub, com, resp sx.V, h *hash.Hash, nf string) bool {
			p := &zkmul.Proof{Commitment: &zkmul.Commitment{A: ctOfBig(com.L[0].Z), B: ctOfBig(com.L[1].Z)},
				Z: intOfBig(resp.L[0].Z), U: natBits(resp.L[1].Z, 2048), V: natBits(resp.L[2].Z, 2048)}
			switch nf {
			case "Commitment":
				p.Commitment = nil
			case "A":
				p.A = nil
			case "B":
				p.B = nil
			case "Z":
				p.Z = nil
			case "U":
				p.U = nil
			case "V":
				p.V = nil
			}
			return p.Verify(zkGroup, h, pubOf(pub))
		},
		rnd: func(g *zkGen, inst *zkInst) []sx.V {
			return zs(mLEps(g.r), randUnit(g.r, inst.keys.n1), randUnit(g.r, inst.keys.n1))
		},
		nilable: []string{"Commitment", "A", "B", "Z", "U", "V"},
	}
}

// ------------------------------------------------------------------------------------------------------------ affg / affp
type affW struct{ x, y, sn, rx, r, kv *big.Int }

func affStatement(g *zkGen, k *zkKeys, class string) (w affW, Kv, Dv, Fp *big.Int) {
	w.x, w.y = latticeValue(g.r, class, 256), latticeValue(g.r, class, 1280)
	w.sn, w.r, w.rx = randUnit(g.r, k.n0), randUnit(g.r, k.n1), randUnit(g.r, k.n1)
	n02 := bMul(k.n0, k.n0)
	Kv = encB(k.n0, randSigned(g.r, 256), randUnit(g.r, k.n0))
	Dv = bMulMod(expIB(n02, Kv, w.x), encB(k.n0, w.y, w.sn), n02)
	Fp = encB(k.n1, w.y, w.r)
	return
}

func defAffg() *zkDef {
	pubOf := func(pub sx.V) zkaffg.Public {
		return zkaffg.Public{Kv: ctOfBig(pub.L[5].Z), Dv: ctOfBig(pub.L[6].Z), Fp: ctOfBig(pub.L[7].Z), Xp: sxPt(pub.L[8]),
			Prover: pkOfBig(pub.L[3].Z), Verifier: pkOfBig(pub.L[4].Z), Aux: pedOfBig(pub.L[0].Z, pub.L[1].Z, pub.L[2].Z)}
	}
	return &zkDef{name: "affg", procs: 4, eKind: eInterval, pubK: "mnnmmnnnp", comK: "npnnnnn", respK: "iiiinn", classes: lat,
		gen: func(g *zkGen, k *zkKeys, class string) *zkInst {
			w, Kv, Dv, Fp := affStatement(g, k, class)
			return &zkInst{pub: cat(pedZs(k), zs(k.n1, k.n0, Kv, Dv, Fp), []sx.V{ptSx(ptMulBase(w.x))}),
				wit: cat(pedZs(k), zs(k.n1, k.n0, Kv, w.x, w.y, w.sn, w.r)), priv: w}
		},
		goProve: func(inst *zkInst, h *hash.Hash) (sx.V, sx.V) {
			w := inst.priv.(affW)
			pb := pubOf(inst.pub)
			pb.Prover = inst.keys.skProver.PublicKey
			p := zkaffg.NewProof(zkGroup, h, pb, zkaffg.Private{X: intOfBig(w.x), Y: intOfBig(w.y), S: natBits(w.sn, 2048), R: natBits(w.r, 2048)})
			return sx.List(sx.Big(bigOfCt(p.A)), ptSx(p.Bx), sx.Big(bigOfCt(p.By)), sx.Big(p.E.Big()), sx.Big(p.S.Big()), sx.Big(p.F.Big()), sx.Big(p.T.Big())),
				sx.List(zs(p.Z1.Big(), p.Z2.Big(), p.Z3.Big(), p.Z4.Big(), p.W.Big(), p.Wy.Big())...)
		},
		goVerif: func(pub, com, resp sx.V, h *hash.Hash, nf string) bool {
			p := zkaffg.Empty(zkGroup)
			p.A, p.Bx, p.By = ctOfBig(com.L[0].Z), sxPt(com.L[1]), ctOfBig(com.L[2].Z)
			p.E, p.S, p.F, p.T = natBits(com.L[3].Z, 2048), natBits(com.L[4].Z, 2048), natBits(com.L[5].Z, 2048), natBits(com.L[6].Z, 2048)
			p.Z1, p.Z2, p.Z3, p.Z4 = intOfBig(resp.L[0].Z), intOfBig(resp.L[1].Z), intOfBig(resp.L[2].Z), intOfBig(resp.L[3].Z)
			p.W, p.Wy = natBits(resp.L[4].Z, 2048), natBits(resp.L[5].Z, 2048)
			switch nf {
			case "Commitment":
				p.Commitment = nil
			case "A":
				p.A = nil
			case "Bx":
				p.Bx = nil
			case "By":
				p.By = nil
			case "E":
				p.E = nil
			case "T":
				p.T = nil
			case "Z1":
				p.Z1 = nil
			case "Z2":
				p.Z2 = nil
			case "Z3":
				p.Z3 = nil
			case "Z4":
				p.Z4 = nil
			case "W":
				p.W = nil
			case "Wy":
				p.Wy = nil
			}
			return p.Verify(h, pubOf(pub))
		},
		rnd: func(g *zkGen, inst *zkInst) []sx.V {
			k := inst.keys
			return zs(mLEps(g.r), mLpEps(g.r), randUnit(g.r, k.n0), randUnit(g.r, k.n1), mLEpsN(g.r), mLN(g.r), mLEpsN(g.r), mLN(g.r))
		},
		ranges:  []respRange{{idx: 0, bits: 768, rnd: 0, wit: []int{6}}, {idx: 1, bits: 1792, rnd: 1, wit: []int{7}}},
		nilable: []string{"Commitment", "A", "Bx", "By", "E", "T", "Z1", "Z2", "Z3", "Z4", "W", "Wy"},
	}
}

func defAffp() *zkDef {
	pubOf := func(pub sx.V) zkaffp.Public {
		return zkaffp.Public{Kv: ctOfBig(pub.L[5].Z), Dv: ctOfBig(pub.L[6].Z), Fp: ctOfBig(pub.L[7].Z), Xp: ctOfBig(pub.L[8].Z),
			Prover: pkOfBig(pub.L[3].Z), Verifier: pkOfBig(pub.L[4].Z), Aux: pedOfBig(pub.L[0].Z, pub.L[1].Z, pub.L[2].Z)}
	}
	return &zkDef{name: "affp", procs: 4, eKind: eInterval, pubK: "mnnmmnnnn", comK: "nnnnnnn", respK: "iiiinnn", classes: lat,
		gen: func(g *zkGen, k *zkKeys, class string) *zkInst {
			w, Kv, Dv, Fp := affStatement(g, k, class)
			return &zkInst{pub: cat(pedZs(k), zs(k.n1, k.n0, Kv, Dv, Fp, encB(k.n1, w.x, w.rx))),
				wit: cat(pedZs(k), zs(k.n1, k.n0, Kv, w.x, w.y, w.sn, w.rx, w.r)), priv: w}
		},
		goProve: func(inst *zkInst, h *hash.Hash) (sx.V, sx.V) {
			w := inst.priv.(affW)
			pb := pubOf(inst.pub)
			pb.Prover = inst.keys.skProver.PublicKey
			p := zkaffp.NewProof(zkGroup, h, pb, zkaffp.Private{X: intOfBig(w.x), Y: intOfBig(w.y), S: natBits(w.sn, 2048),
				Rx: natBits(w.rx, 2048), R: natBits(w.r, 2048)})
			return sx.List(zs(bigOfCt(p.A), bigOfCt(p.Bx), bigOfCt(p.By), p.E.Big(), p.S.Big(), p.F.Big(), p.T.Big())...),
				sx.List(zs(p.Z1.Big(), p.Z2.Big(), p.Z3.Big(), p.Z4.Big(), p.W.Big(), p.Wx.Big(), p.Wy.Big())...)
		},
		goVerif: func(pub, com, resp sx.V, h *hash.Hash, nf string) bool {
			p := &zkaffp.Proof{Commitment: &zkaffp.Commitment{A: ctOfBig(com.L[0].Z), Bx: ctOfBig(com.L[1].Z), By: ctOfBig(com.L[2].Z),
				E: natBits(com.L[3].Z, 2048), S: natBits(com.L[4].Z, 2048), F: natBits(com.L[5].Z, 2048), T: natBits(com.L[6].Z, 2048)},
				Z1: intOfBig(resp.L[0].Z), Z2: intOfBig(resp.L[1].Z), Z3: intOfBig(resp.L[2].Z), Z4: intOfBig(resp.L[3].Z),
				W: natBits(resp.L[4].Z, 2048), Wx: natBits(resp.L[5].Z, 2048), Wy: natBits(resp.L[6].Z, 2048)}
			switch nf {
			case "Commitment":
				p.Commitment = nil
			case "A":
				p.A = nil
			case "Bx":
				p.Bx = nil
			case "E":
				p.E = nil
			case "Z1":
				p.Z1 = nil
			case "Z2":
				p.Z2 = nil
			case "Z3":
				p.Z3 = nil
			case "W":
				p.W = nil
			case "Wx":
				p.Wx = nil
			}
			return p.Verify(zkGroup, h, pubOf(pub))
		},
		rnd: func(g *zkGen, inst *zkInst) []sx.V {
			k := inst.keys
			return zs(mLEps(g.r), mLpEps(g.r), randUnit(g.r, k.n0), randUnit(g.r, k.n1), randUnit(g.r, k.n1), mLEpsN(g.r), mLN(g.r), mLEpsN(g.r), mLN(g.r))
		},
		ranges:  []respRange{{idx: 0, bits: 768, rnd: 0, wit: []int{6}}, {idx: 1, bits: 1792, rnd: 1, wit: []int{7}}},
		nilable: []string{"Commitment", "A", "Bx", "E", "Z1", "Z2", "Z3", "W", "Wx"},
	}
}

// ------------------------------------------------------------------------------------------------------------ mulstar
func defMulstar() *zkDef {
	pubOf := func(pub sx.V) zkmulstar.Public {
		return zkmulstar.Public{C: ctOfBig(pub.L[4].Z), D: ctOfBig(pub.L[5].Z), X: sxPt(pub.L[6]), Verifier: pkOfBig(pub.L[3].Z),
			Aux: pedOfBig(pub.L[0].Z, pub.L[1].Z, pub.L[2].Z)}
	}
	return &zkDef{name: "mulstar", procs: 2, eKind: eInterval, pubK: "mnnmnnp", comK: "npnn", respK: "iin", classes: lat,
		gen: func(g *zkGen, k *zkKeys, class string) *zkInst {
			x := latticeValue(g.r, class, 256)
			rho := randUnit(g.r, k.n0)
			n2 := bMul(k.n0, k.n0)
			C := encB(k.n0, randSigned(g.r, 256), randUnit(g.r, k.n0))
			D := bMulMod(expIB(n2, C, x), new(big.Int).Exp(rho, k.n0, n2), n2)
			return &zkInst{pub: cat(pedZs(k), zs(k.n0, C, D), []sx.V{ptSx(ptMulBase(x))}), wit: cat(pedZs(k), zs(k.n0, C, x, rho)),
				priv: bigs{"x": x, "rho": rho}}
		},
		goProve: func(inst *zkInst, h *hash.Hash) (sx.V, sx.V) {
			w := inst.priv.(bigs)
			p := zkmulstar.NewProof(zkGroup, h, pubOf(inst.pub), zkmulstar.Private{X: intOfBig(w["x"]), Rho: natBits(w["rho"], 2048)})
			return sx.List(sx.Big(bigOfCt(p.A)), ptSx(p.Bx), sx.Big(p.E.Big()), sx.Big(p.S.Big())), sx.List(zs(p.Z1.Big(), p.Z2.Big(), p.W.Big())...)
		},
		goVerif: func(pub, com, resp sx.V, h *hash.Hash, nf string) bool {
			p := zkmulstar.Empty(zkGroup)
			p.A, p.Bx, p.E, p.S = ctOfBig(com.L[0].Z), sxPt(com.L[1]), natBits(com.L[2].Z, 2048), natBits(com.L[3].Z, 2048)
			p.Z1, p.Z2, p.W = intOfBig(resp.L[0].Z), intOfBig(resp.L[1].Z), natBits(resp.L[2].Z, 2048)
			switch nf {
			case "Commitment":
				p.Commitment = nil
			case "A":
				p.A = nil
			case "Bx":
				p.Bx = nil
			case "E":
				p.E = nil
			case "S":
				p.S = nil
			case "Z1":
				p.Z1 = nil
			case "Z2":
				p.Z2 = nil
			case "W":
				p.W = nil
			}
			return p.Verify(zkGroup, h, pubOf(pub))
		},
		rnd: func(g *zkGen, inst *zkInst) []sx.V {
			return zs(mLEps(g.r), randUnit(g.r, inst.keys.n0), mLEpsN(g.r), mLEpsN(g.r))
		},
		ranges:  []respRange{{idx: 0, bits: 768, rnd: 0, wit: []int{5}}},
		nilable: []string{"Commitment", "A", "Bx", "E", "S", "Z1", "Z2", "W"},
	}
}

// ------------------------------------------------------------------------------------------------------------ encelg
func defEncelg() *zkDef {
	pubOf := func(pub sx.V) zkencelg.Public {
		return zkencelg.Public{C: ctOfBig(pub.L[4].Z), A: sxPt(pub.L[5]), B: sxPt(pub.L[6]), X: sxPt(pub.L[7]), Prover: pkOfBig(pub.L[3].Z),
			Aux: pedOfBig(pub.L[0].Z, pub.L[1].Z, pub.L[2].Z)}
	}
	return &zkDef{name: "encelg", procs: 3, eKind: eInterval, pubK: "mnnmnppp", comK: "nnppn", respK: "icni", classes: lat,
		gen: func(g *zkGen, k *zkKeys, class string) *zkInst {
			x := latticeValue(g.r, class, 256)
			rho := randUnit(g.r, k.n1)
			a, b := randScalarNZ(g.r), latticeScalar(g.r, latNoZero[g.r.Intn(len(latNoZero))])
			A := ptMulBase(a)
			X := ptMulBase(bAdd(bMul(a, b), x))
			return &zkInst{pub: cat(pedZs(k), zs(k.n1, encB(k.n1, x, rho)), []sx.V{ptSx(A), ptSx(ptMulBase(b)), ptSx(X)}),
				wit: cat(pedZs(k), zs(k.n1), []sx.V{ptSx(A)}, zs(x, rho, b)), priv: bigs{"x": x, "rho": rho, "a": a, "b": b}}
		},
		goProve: func(inst *zkInst, h *hash.Hash) (sx.V, sx.V) {
			w := inst.priv.(bigs)
			pb := pubOf(inst.pub)
			pb.Prover = inst.keys.skProver.PublicKey
			p := zkencelg.NewProof(zkGroup, h, pb, zkencelg.Private{X: intOfBig(w["x"]), Rho: natBits(w["rho"], 2048), A: scalarOfBig(w["a"]), B: scalarOfBig(w["b"])})
			return sx.List(sx.Big(p.S.Big()), sx.Big(bigOfCt(p.D)), ptSx(p.Y), ptSx(p.Z), sx.Big(p.T.Big())),
				sx.List(zs(p.Z1.Big(), bigOfScalar(p.W), p.Z2.Big(), p.Z3.Big())...)
		},
		goVerif: func(pub, com, resp sx.V, h *hash.Hash, nf string) bool {
			p := zkencelg.Empty(zkGroup)
			p.S, p.D, p.Y, p.Z, p.T = natBits(com.L[0].Z, 2048), ctOfBig(com.L[1].Z), sxPt(com.L[2]), sxPt(com.L[3]), natBits(com.L[4].Z, 2048)
			p.Z1, p.W, p.Z2, p.Z3 = intOfBig(resp.L[0].Z), scalarOfBig(resp.L[1].Z), natBits(resp.L[2].Z, 2048), intOfBig(resp.L[3].Z)
			switch nf {
			case "Commitment":
				p.Commitment = nil
			case "S":
				p.S = nil
			case "D":
				p.D = nil
			case "Y":
				p.Y = nil
			case "T":
				p.T = nil
			case "Z1":
				p.Z1 = nil
			case "W":
				p.W = nil
			case "Z2":
				p.Z2 = nil
			case "Z3":
				p.Z3 = nil
			}
			return p.Verify(h, pubOf(pub))
		},
		rnd: func(g *zkGen, inst *zkInst) []sx.V {
			return zs(mLEps(g.r), mLN(g.r), randUnit(g.r, inst.keys.n1), randScalarNZ(g.r), mLEpsN(g.r))
		},
		ranges:  []respRange{{idx: 0, bits: 768, rnd: 0, wit: []int{5}}},
		nilable: []string{"Commitment", "S", "D", "Y", "T", "Z1", "W", "Z2", "Z3"},
	}
}

// ------------------------------------------------------------------------------------------------------------ fac
func defFac() *zkDef {
	pubOf := func(pub sx.V) zkfac.Public {
		return zkfac.Public{N: modOfBig(pub.L[0].Z), Aux: pedOfBig(pub.L[1].Z, pub.L[2].Z, pub.L[3].Z)}
	}
	return &zkDef{name: "fac", procs: 2, eKind: eInterval, pubK: "mmnn", comK: "nnnnn", respK: "iiiiii", classes: []string{"pq", "qp"},
		gen: func(g *zkGen, k *zkKeys, class string) *zkInst {
			p, q := k.p1, k.q1
			if class == "qp" {
				p, q = q, p
			}
			return &zkInst{pub: cat(zs(k.n1), pedZs(k)), wit: cat(pedZs(k), zs(p, q)), priv: bigs{"p": p, "q": q}}
		},
		goProve: func(inst *zkInst, h *hash.Hash) (sx.V, sx.V) {
			w := inst.priv.(bigs)
			p := zkfac.NewProof(zkfac.Private{P: natBits(w["p"], 1024), Q: natBits(w["q"], 1024)}, h, pubOf(inst.pub))
			return sx.List(zs(p.Comm.P.Big(), p.Comm.Q.Big(), p.Comm.A.Big(), p.Comm.B.Big(), p.Comm.T.Big())...),
				sx.List(zs(p.Sigma.Big(), p.Z1.Big(), p.Z2.Big(), p.W1.Big(), p.W2.Big(), p.V.Big())...)
		},
		goVerif: func(pub, com, resp sx.V, h *hash.Hash, nf string) bool {
			p := &zkfac.Proof{Comm: zkfac.Commitment{P: natBits(com.L[0].Z, 2048), Q: natBits(com.L[1].Z, 2048), A: natBits(com.L[2].Z, 2048),
				B: natBits(com.L[3].Z, 2048), T: natBits(com.L[4].Z, 2048)},
				Sigma: intOfBig(resp.L[0].Z), Z1: intOfBig(resp.L[1].Z), Z2: intOfBig(resp.L[2].Z), W1: intOfBig(resp.L[3].Z),
				W2: intOfBig(resp.L[4].Z), V: intOfBig(resp.L[5].Z)}
			switch nf {
			case "Comm.P":
				p.Comm.P = nil
			case "Comm.Q":
				p.Comm.Q = nil
			case "Comm.T":
				p.Comm.T = nil
			case "Sigma":
				p.Sigma = nil
			case "Z1":
				p.Z1 = nil
			case "W1":
				p.W1 = nil
			case "V":
				p.V = nil
			}
			return p.Verify(pubOf(pub), h)
		},
		rnd: func(g *zkGen, inst *zkInst) []sx.V {
			r := g.r
			return zs(randSigned(r, 768+1024), randSigned(r, 768+1024), mLN(r), mLN(r), randSigned(r, 256+4096), randSigned(r, 768+4096), mLEpsN(r), mLEpsN(r))
		},
		ranges:  []respRange{{idx: 1, bits: 1793, rnd: 0, wit: []int{3}}, {idx: 2, bits: 1793, rnd: 1, wit: []int{4}}},
		nilable: []string{"Comm.P", "Comm.Q", "Comm.T", "Sigma", "Z1", "W1", "V"},
	}
}

// ------------------------------------------------------------------------------------------------------------ prm
func defPrm() *zkDef {
	pubOf := func(pub sx.V) zkprm.Public {
		return zkprm.Public{Aux: pedOfBig(pub.L[0].Z, pub.L[1].Z, pub.L[2].Z)}
	}
	return &zkDef{name: "prm", procs: 2, eKind: eBits, pubK: "mnn", comK: "L", respK: "L", classes: []string{"key", "lambda-zero", "lambda-max", "random"},
		gen: func(g *zkGen, k *zkKeys, class string) *zkInst {
			phi := k.phi0()
			t, lambda := k.t, k.lambda
			switch class {
			case "lambda-zero":
				lambda = new(big.Int)
			case "lambda-max":
				lambda = bSub(phi, bigOne)
			case "random":
				tau := randUnit(g.r, k.nh)
				t = bMulMod(tau, tau, k.nh)
				lambda = bMod(randBig(g.r, 2050), phi)
			}
			s := new(big.Int).Exp(t, lambda, k.nh)
			return &zkInst{pub: sx.List(zs(k.nh, s, t)...), wit: sx.List(zs(k.nh, t, phi, lambda)...), priv: bigs{"lambda": lambda, "phi": phi}}
		},
		goProve: func(inst *zkInst, h *hash.Hash) (sx.V, sx.V) {
			w := inst.priv.(bigs)
			k := inst.keys
			p := zkprm.NewProof(zkprm.Private{Lambda: natBits(w["lambda"], 2048), Phi: natBits(w["phi"], 2048), P: natBits(k.p0, 1024), Q: natBits(k.q0, 1024)},
				h, pubOf(inst.pub), zkPool)
			return sx.List(sx.List(zs(p.As[:]...)...)), sx.List(sx.List(zs(p.Zs[:]...)...))
		},
		goVerif: func(pub, com, resp sx.V, h *hash.Hash, nf string) bool {
			p := &zkprm.Proof{}
			for i := 0; i < 80; i++ {
				p.As[i], p.Zs[i] = new(big.Int).Set(com.L[0].L[i].Z), new(big.Int).Set(resp.L[0].L[i].Z)
			}
			switch nf {
			case "As[0]":
				p.As[0] = nil
			case "Zs[79]":
				p.Zs[79] = nil
			case "proof":
				p = nil
			}
			if nf != "" {
				// nil probes run without a pool: inside a pool worker the panic cannot be recovered by the caller (the process dies)
				return p.Verify(pubOf(pub), h, nil)
			}
			return p.Verify(pubOf(pub), h, zkPool)
		},
		rnd: func(g *zkGen, inst *zkInst) []sx.V {
			phi := inst.priv.(bigs)["phi"]
			al := make([]*big.Int, 80)
			for i := range al {
				al[i] = bMod(randBig(g.r, 2050), phi)
			}
			return []sx.V{sx.List(zs(al...)...)}
		},
		nilable: []string{"As[0]", "Zs[79]", "proof"},
	}
}

// ------------------------------------------------------------------------------------------------------------ mod
func defMod() *zkDef {
	rsSx := func(p *zkmod.Proof) sx.V {
		l := make([]sx.V, 80)
		for i, r := range p.Responses {
			l[i] = sx.List(sx.Bool(r.A), sx.Bool(r.B), sx.Big(r.X), sx.Big(r.Z))
		}
		return sx.List(l...)
	}
	return &zkDef{name: "mod", procs: 2, eKind: eModN, pubK: "m", comK: "i", respK: "R", classes: []string{"key", "key2"},
		gen: func(g *zkGen, k *zkKeys, class string) *zkInst {
			p, q := k.p1, k.q1
			if class == "key2" {
				p, q = k.p0, k.q0
			}
			return &zkInst{pub: sx.List(zs(bMul(p, q))...), wit: sx.List(zs(p, q)...), priv: bigs{"p": p, "q": q}}
		},
		goProve: func(inst *zkInst, h *hash.Hash) (sx.V, sx.V) {
			w := inst.priv.(bigs)
			phi := bMul(bSub(w["p"], bigOne), bSub(w["q"], bigOne))
			p := zkmod.NewProof(h, zkmod.Private{P: natBits(w["p"], 1024), Q: natBits(w["q"], 1024), Phi: natBits(phi, 2048)},
				zkmod.Public{N: modOfBig(inst.pub.L[0].Z)}, zkPool)
			return sx.List(sx.Big(p.W)), sx.List(rsSx(p))
		},
		goVerif: func(pub, com, resp sx.V, h *hash.Hash, nf string) bool {
			p := &zkmod.Proof{W: new(big.Int).Set(com.L[0].Z)}
			for i, r := range resp.L[0].L {
				p.Responses[i] = zkmod.Response{A: r.L[0].AsBool(), B: r.L[1].AsBool(), X: new(big.Int).Set(r.L[2].Z), Z: new(big.Int).Set(r.L[3].Z)}
			}
			switch nf {
			case "W":
				p.W = nil
			case "Responses[0].X":
				p.Responses[0].X = nil
			case "Responses[79].Z":
				p.Responses[79].Z = nil
			case "proof":
				p = nil
			}
			if nf != "" {
				return p.Verify(zkmod.Public{N: modOfBig(pub.L[0].Z)}, h, nil)
			}
			return p.Verify(zkmod.Public{N: modOfBig(pub.L[0].Z)}, h, zkPool)
		},
		rnd: func(g *zkGen, inst *zkInst) []sx.V {
			n := inst.pub.L[0].Z
			for {
				w := bMod(randBig(g.r, 2048), n)
				if big.Jacobi(w, n) == -1 {
					return zs(w)
				}
			}
		},
		nilable: []string{"W", "Responses[0].X", "Responses[79].Z", "proof"},
	}
}

// ------------------------------------------------------------------------------------------------------------ special probes
func (c *ctx) zkSpecial(g *zkGen, d *zkDef, k *zkKeys, t zkTriple, inst *zkInst) {
	r := g.r
	switch d.name {
	case "dec":
		// a prover that skips its own EncWithNonce guard: mask above N/2 (rejected: not a plaintext; before the zk validation patch the
		// verifier panicked) and mask above 2^(l+eps) (accepted: no l+eps range check)
		w := inst.priv.(bigs)
		for _, mc := range []struct {
			name  string
			alpha *big.Int
		}{{"unguarded-prover/mask=2^2047", pow2(2047)}, {"unguarded-prover/mask=2^1500", pow2(1500)}} {
			mu, nu, rr := mLN(r), mLEpsN(r), randUnit(r, k.n1)
			com := sx.List(zs(pedB(k.nh, k.s, k.t, w["y"], mu), pedB(k.nh, k.s, k.t, mc.alpha, nu), encB(k.n1, mc.alpha, rr), bMod(mc.alpha, secpQ))...)
			e, _, err := zkModelChallenge(c.m, d, t.prefix, t.pub, com)
			if err != nil {
				continue
			}
			resp := sx.List(zs(bAdd(bMul(e.Z, w["y"]), mc.alpha), bAdd(bMul(e.Z, mu), nu), bMulMod(expIB(k.n1, w["rho"], e.Z), rr, k.n1))...)
			gv, mv := c.zkCheck(d, k, mc.name, zkTriple{t.prefix, t.pub, com, resp}, expAny)
			c.res.Note("zkdec.Verify has no l+eps range check on Z1 (only the plaintext range |Z1| <= N/2): %s gives Go verdict %d, model verdict %d (0 reject, 1 accept, 2 EncWithNonce panic)", mc.name, gv, mv)
		}
	case "mul":
		w := inst.priv.(bigs)
		n2 := bMul(k.n1, k.n1)
		Y := t.pub.L[2].Z
		for _, mc := range []struct {
			name  string
			alpha *big.Int
		}{{"unguarded-prover/mask=2^2047", pow2(2047)}, {"unguarded-prover/mask=2^1500", pow2(1500)}} {
			rr, ss := randUnit(r, k.n1), randUnit(r, k.n1)
			A := bMulMod(expIB(n2, Y, mc.alpha), new(big.Int).Exp(rr, k.n1, n2), n2)
			com := sx.List(zs(A, encB(k.n1, mc.alpha, ss))...)
			e, _, err := zkModelChallenge(c.m, d, t.prefix, t.pub, com)
			if err != nil {
				continue
			}
			resp := sx.List(zs(bAdd(bMul(e.Z, w["x"]), mc.alpha), bMulMod(expIB(k.n1, w["rho"], e.Z), rr, k.n1), bMulMod(expIB(k.n1, w["rhox"], e.Z), ss, k.n1))...)
			gv, mv := c.zkCheck(d, k, mc.name, zkTriple{t.prefix, t.pub, com, resp}, expAny)
			c.res.Note("zkmul.Verify has no l+eps range check on Z (only the plaintext range |Z| <= N/2): %s gives Go verdict %d, model verdict %d (0 reject, 1 accept, 2 EncWithNonce panic)", mc.name, gv, mv)
		}
	case "fac":
		// Sigma is sent with the first message in the paper but is not hashed: (Sigma + d, V + d e) verifies as well
		e, _, err := zkModelChallenge(c.m, d, t.prefix, t.pub, t.com)
		if err == nil {
			dd := randSigned(r, 200)
			resp := replaceAt(replaceAt(t.resp, 0, sx.Big(bAdd(t.resp.L[0].Z, dd))), 5, sx.Big(bAdd(t.resp.L[5].Z, bMul(dd, e.Z))))
			gv, mv := c.zkCheck(d, k, "sigma-and-v-mauled", zkTriple{t.prefix, t.pub, t.com, resp}, expAny)
			c.res.Note("zkfac: Proof.Sigma is not part of the Fiat-Shamir transcript; (Sigma+d, V+d*e) gives Go verdict %d, model verdict %d", gv, mv)
		}
	case "mod":
		// Verify calls Proof.IsValid (fix "zkmod.Verify validates W and the responses"): X and Z outside [1,N) must be refused
		n := t.pub.L[0].Z
		rs := t.resp.L[0]
		mk := func(i, f int, v *big.Int) sx.V {
			l := append([]sx.V{}, rs.L...)
			e := append([]sx.V{}, l[i].L...)
			e[f] = sx.Big(v)
			l[i] = sx.List(e...)
			return sx.List(sx.List(l...))
		}
		j := r.Intn(80)
		x, z := rs.L[j].L[2].Z, rs.L[j].L[3].Z
		c.zkCheck(d, k, "resp-out-of-range/X+N", zkTriple{t.prefix, t.pub, t.com, mk(j, 2, bAdd(x, n))}, expReject)
		c.zkCheck(d, k, "resp-out-of-range/Z+N", zkTriple{t.prefix, t.pub, t.com, mk(j, 3, bAdd(z, n))}, expReject)
		c.zkCheck(d, k, "resp-out-of-range/X-N", zkTriple{t.prefix, t.pub, t.com, mk(j, 2, bSub(x, n))}, expReject)
		gv, mv := c.zkCheck(d, k, "other-fourth-root/N-X", zkTriple{t.prefix, t.pub, t.com, mk(j, 2, bSub(n, x))}, expAny)
		c.res.Note("zkmod: the other fourth root N-X gives Go verdict %d, model verdict %d (a different in-range response that verifies by design)", gv, mv)
	case "prm":
		// z + N is out of [1,N) and must be refused; z + ord(t) stays in range only if small
		zsL := t.resp.L[0]
		l := append([]sx.V{}, zsL.L...)
		l[3] = sx.Big(bAdd(l[3].Z, k.nh))
		c.zkCheck(d, k, "resp-out-of-range/z+N", zkTriple{t.prefix, t.pub, t.com, sx.List(sx.List(l...))}, expReject)
	}
	_ = fmt.Sprint
}
