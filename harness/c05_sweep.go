package main

// c05_sweep.go -- round-level sweep for the expensive (CMP) sessions.
// One victim is replayed through the recorded reference session with transparent round.Session proxies.  Immediately before the
// victim receives a genuine message T of its current round, EVERY malformation of T is pushed through exactly the calls the
// handler makes for a current-round message (CanAccept; cbor.Unmarshal into the round's BroadcastContent()/MessageContent();
// StoreBroadcastMessage, or VerifyMessage + StoreMessage) on the victim's live round session -- without paying for a fresh
// victim per case.  Any PANIC / HANG seen here is then confirmed by a full replay through CanAccept + Accept of a fresh real
// handler, and only the confirmed outcome is reported.

import (
	"fmt"
	"os"
	"runtime/debug"
	"sort"
	"strings"
	"time"

	"github.com/fxamacker/cbor/v2"
	"github.com/taurusgroup/multi-party-sig/pkg/party"
	"github.com/taurusgroup/multi-party-sig/pkg/protocol"
	"github.com/taurusgroup/multi-party-sig/pkg/verifhook"
)

type c05SweepResult struct {
	class string
	err   string
	pan   string
	stack string
	hung  bool
}

func c05SweepOne(R verifhook.RoundSession, mut *protocol.Message, timeout time.Duration) c05SweepResult {
	done := make(chan c05SweepResult, 1)
	go func() {
		var res c05SweepResult
		defer func() {
			if r := recover(); r != nil {
				res = c05SweepResult{class: "PANIC", pan: fmt.Sprint(r), stack: string(debug.Stack())}
			}
			done <- res
		}()
		var content verifhook.RoundContent
		var b verifhook.BroadcastRound
		if mut.Broadcast {
			var ok bool
			b, ok = R.(verifhook.BroadcastRound)
			if !ok {
				res = c05SweepResult{class: "clean-abort", err: "got broadcast message when none was expected"}
				return
			}
			content = b.BroadcastContent()
		} else {
			content = R.MessageContent()
		}
		if err := cbor.Unmarshal(mut.Data, content); err != nil {
			res = c05SweepResult{class: "clean-abort", err: "failed to unmarshal: " + err.Error()}
			return
		}
		rm := verifhook.RoundMessage{From: mut.From, To: mut.To, Content: content, Broadcast: mut.Broadcast}
		if mut.Broadcast {
			if err := b.StoreBroadcastMessage(rm); err != nil {
				res = c05SweepResult{class: "clean-abort", err: fmt.Sprintf("round %d: %v", R.Number(), err)}
				return
			}
			res = c05SweepResult{class: "continued"}
			return
		}
		if err := R.VerifyMessage(rm); err != nil {
			res = c05SweepResult{class: "clean-abort", err: fmt.Sprintf("round %d: %v", R.Number(), err)}
			return
		}
		if err := R.StoreMessage(rm); err != nil {
			res = c05SweepResult{class: "clean-abort", err: fmt.Sprintf("round %d: %v", R.Number(), err)}
			return
		}
		res = c05SweepResult{class: "continued"}
	}()
	wd := newC05Watchdog(timeout)
	tick := time.NewTicker(200 * time.Millisecond)
	defer tick.Stop()
	for {
		select {
		case r := <-done:
			return r
		case <-tick.C:
			if wd.expired() {
				return c05SweepResult{class: "HANG", hung: true, stack: c05HungStack()}
			}
		}
	}
}

func (c *ctx) c05ChildClone(env *c05Env, job *c05Job, w *c05Writer) {
	job.PerOth = -1
	spec, ref, cands, ok := c.c05Setup(env, job, w)
	if !ok {
		return
	}
	victim := spec.Victim
	byTarget := map[string][]int{}
	for i, cd := range cands {
		if job.Shards > 1 && i%job.Shards != job.Shard {
			continue
		}
		byTarget[cd.Target] = append(byTarget[cd.Target], i)
	}
	pos := -1
	e, err := newC05Engine(env, spec, []party.ID{victim}, ref.Envs, true, false)
	if err != nil {
		w.line(c05Line{Note: "sweep: " + err.Error()})
		return
	}
	e.timeout = 120 * time.Second
	v := e.live[victim]
	deadline := time.Now().Add(time.Duration(job.Budget) * time.Second)
	n, skipped, bads := 0, 0, 0
	confirmed := map[string]int{}
	targetsLeft := len(byTarget)
	for k := range byTarget {
		// seed-independent core first, so that a time budget cuts the sampled rest
		idx := byTarget[k]
		sort.SliceStable(idx, func(a, b int) bool { return cands[idx[a]].Core && !cands[idx[b]].Core })
	}
	for _, key := range ref.Order {
		if c05KeyTo(key) != victim {
			continue
		}
		x := e.take(key)
		if x == nil {
			continue
		}
		if idxs := byTarget[key]; len(idxs) > 0 {
			cur := v.lastO.Round
			R := v.rec.rounds[cur]
			if R == nil || int(x.Msg.RoundNumber) != cur || v.lastO.Class != 0 {
				w.line(c05Line{Note: fmt.Sprintf("sweep %s: target %s is not for the victim's current round (%d); %d cases left to the full replays", spec.Name, key, cur, len(idxs))})
			} else {
				slice := deadline
				targetsLeft--
				for _, i := range idxs {
					pos++
					if pos < job.Start {
						continue
					}
					if job.Budget > 0 && time.Now().After(slice) {
						skipped++
						continue
					}
					cd := cands[i]
					pp := pos
					w.line(c05Line{Start: &pp, I: i, Key: cd.Key})
					mut := cd.make()
					oc := c05Outcome{I: i, Key: cd.Key, Bucket: "sweep/" + cd.Bucket, Target: cd.Target, State: "inorder", Spec: spec.Name, Victim: string(victim), Mode: "sweep", Core: cd.Core}
					h, isNil, ln := "", mut == nil, 0
					if mut != nil {
						ln = len(mut.Data)
					}
					oc.MsgNil, oc.MsgLen = isNil, ln
					var can bool
					func() {
						defer func() {
							if r := recover(); r != nil {
								oc.Class, oc.Bad = "PANIC", &c05Bad{Party: string(victim), Kind: "PANIC", Text: fmt.Sprint(r), Site: c05PanicSite(string(debug.Stack())), Call: "CanAccept"}
							}
						}()
						can = v.H.CanAccept(mut)
					}()
					oc.CanAccept = can
					switch {
					case oc.Class == "PANIC":
					case !can:
						oc.Class = "ignored"
					case mut.RoundNumber == 0:
						oc.Class = "clean-abort" // abort notice
					case int(mut.RoundNumber) != cur:
						oc.Class = "continued" // queued for a later round
					case !mut.Broadcast && c05IsBroadcastRound(R) && !c05HaveBroadcast(v, cur, mut.From):
						oc.Class = "continued" // the handler keeps a p2p message until the sender's broadcast has arrived
					default:
						wd := 20 * time.Second
						if job.OnlyMalf != "" {
							wd = 6 * time.Second // probe: a suspect is confirmed below with the real 20 s watchdog
						}
						r := c05SweepOne(R, mut, wd)
						oc.Class, oc.Err = r.class, r.err
						if r.class == "PANIC" {
							oc.Bad = &c05Bad{Party: string(victim), Kind: "PANIC", Text: r.pan, Site: c05PanicSite(r.stack), Stack: c05TrimStack(r.stack), AtKey: key, Call: "round-level"}
						} else if r.hung {
							oc.Bad = &c05Bad{Party: string(victim), Kind: "HANG", Text: "round-level processing did not return within " + wd.String(), Site: c05PanicSite(r.stack), Stack: c05TrimStack(r.stack), AtKey: key, Call: "round-level"}
						}
					}
					if len(oc.Err) > 300 {
						oc.Err = oc.Err[:300] + "…"
					}
					if mut != nil {
						oc.FP = fmt.Sprintf("%s|%s|sweep|%x|%d", spec.Name, cd.Target, c05ShortHash(string(mut.Data)+"|"+string(mut.From)+"|"+string(mut.To)+"|"+mut.Protocol+"|"+string(mut.SSID)), int(mut.RoundNumber)*2+c05B2i(mut.Broadcast))
					} else {
						oc.FP = spec.Name + "|" + cd.Target + "|sweep|nil"
					}
					oc.Nontriv = true
					if oc.Class == "PANIC" || oc.Class == "HANG" {
						site := c05SiteOf(oc.Bad)
						if k := strings.Index(site, "<- "); oc.Class == "HANG" && k >= 0 {
							site = site[k+3:] // a hang is sampled somewhere inside the arithmetic: group by the library frame
						}
						grp := oc.Class + "|" + site + "|" + fmt.Sprintf("r%d/%s", cd.Round, cd.CType)
						if confirmed[grp] >= 1 {
							// same failure site in the same message type as a case already confirmed through the real handler:
							// counted, not confirmed again (a confirmation costs a whole victim replay), hence not reported individually
							oc.Class, oc.Err, oc.Bad = "SWEEP-"+oc.Class, "round-level "+oc.Class+" at "+c05SiteOf(oc.Bad)+" (same site as an already confirmed case; not re-confirmed)", nil
							w.line(c05Line{Out: &oc})
							n++
							continue
						}
						confirmed[grp]++
						// confirm through the real handler; only that outcome counts
						saved := env.rnd.save()
						full := c.c05RunCandidate(env, spec, ref, victim, cd, mut, true)
						env.rnd.load(saved)
						full.I = i
						full.Note = fmt.Sprintf("found by the round-level sweep (%s at %s)", oc.Class, c05SiteOf(oc.Bad))
						if full.Bad == nil {
							w.line(c05Line{Note: fmt.Sprintf("sweep alarm %s (%s at %s) was NOT reproduced through the real handler (class %s); not reported", cd.Key, oc.Class, c05SiteOf(oc.Bad), full.Class)})
						}
						full.Bucket = "sweep/" + cd.Bucket
						full.Core = cd.Core
						oc = full
					}
					_ = h
					w.line(c05Line{Out: &oc})
					n++
					if job.Count > 0 && oc.Bad != nil {
						bads++
					}
					if oc.Class == "HANG" || oc.Later == "LATE-HANG" || (job.Count > 0 && bads >= job.Count) {
						nx := pos + 1
						if job.Count > 0 && bads >= job.Count {
							nx = 1 << 30
						}
						w.line(c05Line{Next: &nx, Calls: c.m.Calls})
						w.f.Close()
						os.Exit(0)
					}
				}
			}
		}
		e.accept(v, x.Msg, true, key)
		if e.bad != nil {
			w.line(c05Line{Note: fmt.Sprintf("sweep %s: the master replay itself failed at %s: %s %s [%s] (state sharing artefact; remaining targets skipped)", spec.Name, key, e.bad.Kind, e.bad.Text, e.bad.Site)})
			break
		}
	}
	if skipped > 0 {
		w.line(c05Line{Note: fmt.Sprintf("sweep %s shard %d/%d: time budget reached, %d cases skipped (%d run)", spec.Name, job.Shard, job.Shards, skipped, n)})
	}
	if _, es := e.result(victim); es != "" {
		w.line(c05Line{Note: fmt.Sprintf("sweep %s: the master victim did not complete after the sweep: %s (accepted mutants may have polluted the shared round state; harmless for the reported outcomes, which are confirmed separately)", spec.Name, es)})
	}
	w.line(c05Line{Total: len(cands)})
}

func c05IsBroadcastRound(r verifhook.RoundSession) bool {
	_, ok := r.(verifhook.BroadcastRound)
	return ok
}

func c05HaveBroadcast(v *c05Party, round int, from party.ID) bool {
	if v.MH == nil {
		return true
	}
	st := v.MH.VerifState()
	return st.Broadcasts[uint16(round)][from] != nil
}

func c05B2i(b bool) int {
	if b {
		return 1
	}
	return 0
}

func c05SiteOf(b *c05Bad) string {
	if b == nil {
		return "?"
	}
	return b.Site
}

// c05RunCloneOne: replay of a case that was recorded in sweep mode = the confirming full replay
func (c *ctx) c05RunCloneOne(env *c05Env, spec *c05Spec, ref *c05Ref, cand *c05Cand, mut *protocol.Message) c05Outcome {
	return c.c05RunCandidate(env, spec, ref, spec.Victim, cand, mut, true)
}
