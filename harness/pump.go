package main

// pump.go -- deterministic network simulator around the real handlers ("deterministic pump"):
// a single goroutine decides which in-flight envelope is delivered next; every Accept is run under recover
// with the outgoing channel drained concurrently; after every API call a state snapshot is taken (verif hooks)
// and the call is recorded as a model event so that the Coq handler model can be replayed on the same history.

import (
	"bytes"
	crand "crypto/rand"
	"crypto/sha256"
	"encoding/binary"
	"fmt"
	"io"
	"math/rand"
	"runtime"
	"sort"
	"strconv"
	"strings"
	"sync"
	"time"

	"github.com/taurusgroup/multi-party-sig/pkg/party"
	"github.com/taurusgroup/multi-party-sig/pkg/protocol"

	"verifharness/sx"
)

// ---------------------------------------------------------------------------------------------
// deterministic crypto/rand.Reader with one stream per party ("fixed party randomness")

type detReader struct {
	mu      sync.Mutex
	seed    int64
	cur     string
	streams map[string]*ctrStream
	mode    int // 0 per-party seeded streams, 1 constant bytes, 2 repeating block
	// alias: stream label -> name used to derive the stream key (two labels with the same alias produce equal bytes)
	alias map[string]string
	// mux: this reader is not installed as crypto/rand.Reader itself; it serves the goroutines registered for it with
	// the process-wide muxReader (sims that run in parallel, each with its own deterministic streams)
	mux bool
}

type ctrStream struct {
	key [32]byte
	ctr uint64
	buf []byte
}

func (s *ctrStream) read(p []byte) {
	for len(p) > 0 {
		if len(s.buf) == 0 {
			var in [40]byte
			copy(in[:], s.key[:])
			binary.BigEndian.PutUint64(in[32:], s.ctr)
			s.ctr++
			d := sha256.Sum256(in[:])
			s.buf = d[:]
		}
		n := copy(p, s.buf)
		p, s.buf = p[n:], s.buf[n:]
	}
}

func (d *detReader) Read(p []byte) (int, error) {
	d.mu.Lock()
	defer d.mu.Unlock()
	switch d.mode {
	case 1:
		for i := range p {
			p[i] = 0x5a
		}
		return len(p), nil
	}
	st := d.streams[d.cur]
	if st == nil {
		name := d.cur
		if a, ok := d.alias[d.cur]; ok {
			name = a
		}
		st = &ctrStream{key: sha256.Sum256([]byte(fmt.Sprintf("%d/%s", d.seed, name)))}
		d.streams[d.cur] = st
	}
	if d.mode == 2 {
		// repeating: every read restarts the stream
		st = &ctrStream{key: st.key}
	}
	st.read(p)
	return len(p), nil
}

var origRandReader io.Reader = crand.Reader

func installDetReader(seed int64, mode int) *detReader {
	d := &detReader{seed: seed, streams: map[string]*ctrStream{}, mode: mode, alias: map[string]string{}}
	crand.Reader = d
	return d
}
func restoreRandReader() { crand.Reader = origRandReader }

// ---------------------------------------------------------------------------------------------
// muxReader: a crypto/rand.Reader for sims that run in parallel. Every goroutine that executes library code of a sim
// (the goroutine driving the sim, and the goroutine of every API call, see Sim.call) registers the sim's detReader;
// reads from other goroutines (there are none when the sessions are given a nil pool) fall through to the OS reader.

type muxReader struct {
	mu sync.Mutex
	by map[int64]*detReader
}

var theMux = &muxReader{by: map[int64]*detReader{}}

func goid() int64 {
	var buf [64]byte
	n := runtime.Stack(buf[:], false)
	f := bytes.Fields(buf[:n])
	if len(f) < 2 {
		return -1
	}
	id, err := strconv.ParseInt(string(f[1]), 10, 64)
	if err != nil {
		return -1
	}
	return id
}

func (m *muxReader) current() *detReader {
	id := goid()
	m.mu.Lock()
	defer m.mu.Unlock()
	return m.by[id]
}

func (m *muxReader) Read(p []byte) (int, error) {
	if d := m.current(); d != nil {
		return d.Read(p)
	}
	return origRandReader.Read(p)
}

// installMux makes the muxReader the process's crypto/rand.Reader (call from the main goroutine, before the parallel phase).
func installMux() { crand.Reader = theMux }

// newMuxDetReader creates a detReader to be used under the muxReader.
func newMuxDetReader(seed int64) *detReader {
	return &detReader{seed: seed, streams: map[string]*ctrStream{}, alias: map[string]string{}, mux: true}
}

// muxEnter registers d for the calling goroutine; the returned function undoes it.
func muxEnter(d *detReader) func() {
	if d == nil || !d.mux {
		return func() {}
	}
	id := goid()
	theMux.mu.Lock()
	prev := theMux.by[id]
	theMux.by[id] = d
	theMux.mu.Unlock()
	return func() {
		theMux.mu.Lock()
		if prev == nil {
			delete(theMux.by, id)
		} else {
			theMux.by[id] = prev
		}
		theMux.mu.Unlock()
	}
}

// currentDet: the detReader serving the calling goroutine (nil if randomness comes from the OS)
func currentDet() *detReader {
	switch r := crand.Reader.(type) {
	case *detReader:
		return r
	case *muxReader:
		return r.current()
	}
	return nil
}
func crandSet(d *detReader)  { crand.Reader = d }
func (d *detReader) setParty(p string) {
	d.mu.Lock()
	d.cur = p
	d.mu.Unlock()
}

// ---------------------------------------------------------------------------------------------

type Env struct {
	Msg   *protocol.Message
	To    party.ID
	Seq   int
	Valid bool // what the model is told about this message's validity
	// what the model is told about the round code panicking on this message (Model/Handler.v m_panic):
	// 0 it does not, 1 it panics while decoding / verifying / storing it, 2 it accepts it and panics in Finalize of that round
	Panics int
	Tag    string
}

type Obs struct {
	Round    int
	Class    int // 0 not finished, 1 value, 2 error
	Culprits []int
	ErrKind  int
	ErrText  string
	NewOut   []sx.V
	Closed   bool
	Panic    string
	QB, QP   int
	HashRnds []int
	Extra    int
	Hung     bool
}

type Node struct {
	Label  party.ID // key in Sim.Nodes (differs from ID only for the second instance of a two-faced party)
	ID     party.ID
	Idx    int
	H      protocol.Handler
	MH     *protocol.MultiHandler
	TH     *protocol.TwoPartyHandler
	Events []sx.V
	Obs    []Obs // Obs[0] = after construction
	closed bool
	Out    []*protocol.Message // everything emitted
	StartErr error
}

type Sim struct {
	IDs    party.IDSlice
	Nodes  map[party.ID]*Node
	Flight []*Env
	seq    int
	rng    *rand.Rand
	det    *detReader
	intern map[string]int64
	Trace  []string
	AcceptTimeout time.Duration
	// OnEmit lets a scenario rewrite / duplicate / drop outgoing envelopes (cheating parties)
	OnEmit func(from party.ID, e *Env) []*Env
	// Route, if set, decides whether messages emitted by node `from` reach node `to` (two-faced parties)
	Route func(from, to *Node) bool
	sealed bool
	stash  []stashed
	// SysLog: every Accept / Stop the pump executed, in global order (pump_sys.go: the system model runs on it)
	SysLog []sysRec
	// Wire: delivery mode "wire": every envelope crosses the wire format before Accept, as with a real transport: the sender's
	// Message.MarshalBinary, the bytes, UnmarshalBinary into a fresh Message at the recipient. The model event and the system
	// log record the message as it was SENT. WireFail counts the envelopes that do not survive the wire format (delivered
	// in memory instead, and listed in Trace).
	Wire     bool
	WireFail int
}

type stashed struct {
	n    *Node
	msgs []*protocol.Message
}

// Seal is called once all nodes have been added: messages emitted at construction are expanded to envelopes now.
func (s *Sim) Seal() {
	s.sealed = true
	st := s.stash
	s.stash = nil
	for _, x := range st {
		s.enqueue(x.n, x.msgs)
	}
}

func NewSim(ids []party.ID, rng *rand.Rand, det *detReader) *Sim {
	s := &Sim{IDs: party.NewIDSlice(ids), Nodes: map[party.ID]*Node{}, rng: rng, det: det, intern: map[string]int64{}, AcceptTimeout: 120 * time.Second}
	return s
}

func (s *Sim) Intern(kind string, b []byte) int64 {
	if b == nil {
		return 0
	}
	k := kind + "\x00" + string(b)
	if v, ok := s.intern[k]; ok {
		return v
	}
	v := int64(len(s.intern) + 1)
	s.intern[k] = v
	return v
}

func (s *Sim) idx(id party.ID) int {
	for i, x := range s.IDs {
		if x == id {
			return i
		}
	}
	return 999
}

func (s *Sim) toIdx(id party.ID) int {
	if id == "" {
		return -1
	}
	if i := s.idx(id); i != 999 {
		return i
	}
	return 998
}

// msgSx renders a message as the model's msg tuple.
func (s *Sim) msgSx(m *protocol.Message, valid bool) sx.V { return s.msgSxP(m, valid, 0) }

// msgSxP: the same with the panic flag (11th element; left out when 0 -- the model reads an absent flag as "no panic").
func (s *Sim) msgSxP(m *protocol.Message, valid bool, panics int) sx.V {
	fp := s.Intern("msg", m.Hash())
	l := []sx.V{sx.Int(s.Intern("ssid", nonNil(m.SSID))), sx.Int(s.Intern("proto", []byte(m.Protocol))), sx.Int(int64(s.idx(m.From))),
		sx.Int(int64(s.toIdx(m.To))), sx.Int(int64(m.RoundNumber)), sx.Bool(m.Data != nil), sx.Bool(m.Broadcast),
		sx.Int(s.Intern("digest", m.BroadcastVerification)), sx.Int(fp), sx.Bool(valid)}
	if panics != 0 {
		l = append(l, sx.Int(int64(panics)))
	}
	return sx.List(l...)
}

func nonNil(b []byte) []byte {
	if b == nil {
		return []byte{}
	}
	return b
}

func (s *Sim) outSx(m *protocol.Message) sx.V {
	return sx.List(sx.Int(int64(s.toIdx(m.To))), sx.Int(int64(m.RoundNumber)), sx.Bool(m.Broadcast), sx.Int(s.Intern("digest", m.BroadcastVerification)))
}

// AddMulti creates a MultiHandler for id.
func (s *Sim) AddMulti(id party.ID, start protocol.StartFunc, sessionID []byte) *Node {
	return s.AddMultiAs(id, id, start, sessionID)
}

// AddMultiAs creates a MultiHandler for party id under the node label `label`.
func (s *Sim) AddMultiAs(label, id party.ID, start protocol.StartFunc, sessionID []byte) *Node {
	n := &Node{Label: label, ID: id, Idx: s.idx(id)}
	s.Nodes[label] = n
	if s.det != nil {
		s.det.setParty(string(label))
	}
	var pan string
	func() {
		defer func() {
			if r := recover(); r != nil {
				pan = fmt.Sprint(r)
			}
		}()
		h, err := protocol.NewMultiHandler(start, sessionID)
		if err != nil {
			n.StartErr = err
			return
		}
		n.H, n.MH = h, h
	}()
	if pan != "" {
		n.StartErr = fmt.Errorf("PANIC: %s", pan)
	}
	if n.H != nil {
		msgs := s.collect(n)
		n.Obs = append(n.Obs, s.observe(n, msgs, "", 0, false))
		s.enqueue(n, msgs)
	}
	return n
}

func (s *Sim) AddTwoParty(id party.ID, start protocol.StartFunc, sessionID []byte, leader bool) *Node {
	n := &Node{Label: id, ID: id, Idx: s.idx(id)}
	s.Nodes[id] = n
	if s.det != nil {
		s.det.setParty(string(id))
	}
	var pan string
	func() {
		defer func() {
			if r := recover(); r != nil {
				pan = fmt.Sprint(r)
			}
		}()
		h, err := protocol.NewTwoPartyHandler(start, sessionID, leader)
		if err != nil {
			n.StartErr = err
			return
		}
		n.H, n.TH = h, h
	}()
	if pan != "" {
		n.StartErr = fmt.Errorf("PANIC: %s", pan)
	}
	if n.H != nil {
		msgs := s.collect(n)
		n.Obs = append(n.Obs, s.observe(n, msgs, "", 0, false))
		s.enqueue(n, msgs)
	}
	return n
}

// collect drains whatever is currently buffered on the handler's outgoing channel (non-blocking).
func (s *Sim) collect(n *Node) []*protocol.Message {
	var out []*protocol.Message
	if n.closed {
		return nil
	}
	ch := n.H.Listen()
	for {
		select {
		case m, ok := <-ch:
			if !ok {
				n.closed = true
				return out
			}
			out = append(out, m)
		default:
			return out
		}
	}
}

// call runs f (an API call on n's handler) in a goroutine while draining the outgoing channel.
func (s *Sim) call(n *Node, f func()) (msgs []*protocol.Message, pan string, hung bool) {
	done := make(chan string, 1)
	go func() {
		defer muxEnter(s.det)()
		defer func() {
			if r := recover(); r != nil {
				done <- "PANIC: " + fmt.Sprint(r)
			} else {
				done <- ""
			}
		}()
		f()
	}()
	var ch <-chan *protocol.Message
	if !n.closed {
		ch = n.H.Listen()
	}
	timeout := time.After(s.AcceptTimeout)
	for {
		select {
		case m, ok := <-ch:
			if !ok {
				n.closed = true
				ch = nil
				continue
			}
			msgs = append(msgs, m)
		case p := <-done:
			msgs = append(msgs, s.collect(n)...)
			return msgs, strings.TrimPrefix(p, "PANIC: "), false
		case <-timeout:
			return msgs, "", true
		}
	}
}

func errKindOf(text string) int {
	switch {
	case text == "":
		return 0
	case strings.Contains(text, "aborted by other party"):
		return 1
	case strings.Contains(text, "broadcast verification failed"):
		return 3
	case strings.Contains(text, "aborted by user"):
		return 5
	case strings.HasPrefix(text, recoveredPanicPrefix):
		return 7 // Model/Handler.v EPanic: recoverToAbort, nobody named
	}
	return 2
}

// recoveredPanicPrefix is how MultiHandler.recoverToAbort words the error of a session ended by a recovered panic.
const recoveredPanicPrefix = "panic while processing message"

// roundPanicValue is what the harness's proxy rounds panic with (c17_panic.go); if such a panic ESCAPES from an API call the
// runtime tag is 13 (Model/Handler.v: Panicked 3), as the model of Accept without the recovery (hnd.run.v0) predicts.
const roundPanicValue = "c17: processing this message panics"

func (s *Sim) observe(n *Node, msgs []*protocol.Message, pan string, extra int, hung bool) Obs {
	o := Obs{Panic: pan, Extra: extra, Hung: hung}
	for _, m := range msgs {
		o.NewOut = append(o.NewOut, s.outSx(m))
	}
	n.Out = append(n.Out, msgs...)
	if hung {
		return o
	}
	if n.MH != nil {
		st := n.MH.VerifState()
		o.Round = int(st.Round)
		if st.HasResult {
			o.Class = 1
		} else if st.HasErr {
			o.Class = 2
		}
		for _, c := range st.Culprits {
			o.Culprits = append(o.Culprits, s.idx(c))
		}
		o.ErrText = st.ErrText
		o.ErrKind = errKindOf(st.ErrText)
		if st.HasErr && o.ErrKind == 0 {
			o.ErrKind = 2
		}
		for _, q := range st.Broadcasts {
			o.QB += len(q)
		}
		for _, q := range st.Messages {
			o.QP += len(q)
		}
		for r := range st.Hashes {
			o.HashRnds = append(o.HashRnds, int(r))
		}
		sort.Ints(o.HashRnds)
	} else if n.TH != nil {
		st := n.TH.VerifState()
		o.Round = int(st.Round.Number)
		if st.HasResult {
			o.Class = 1
		} else if st.HasErr {
			o.Class = 2
		}
		o.ErrText = st.ErrText
		o.ErrKind = errKindOf(st.ErrText)
	}
	// closed-ness of Listen(): observed by collect/call
	o.Closed = n.closed
	return o
}

// enqueue expands emitted messages into one envelope per recipient node.
func (s *Sim) enqueue(n *Node, msgs []*protocol.Message) {
	if !s.sealed {
		s.stash = append(s.stash, stashed{n, msgs})
		return
	}
	labels := make([]string, 0, len(s.Nodes))
	for l := range s.Nodes {
		labels = append(labels, string(l))
	}
	sort.Strings(labels)
	for _, m := range msgs {
		for _, l := range labels {
			to := s.Nodes[party.ID(l)]
			if to.ID == n.ID {
				continue
			}
			if m.To != "" && m.To != to.ID {
				continue
			}
			if s.Route != nil && !s.Route(n, to) {
				continue
			}
			e := &Env{Msg: m, To: to.Label, Valid: true}
			envs := []*Env{e}
			if s.OnEmit != nil {
				envs = s.OnEmit(n.ID, e)
			}
			for _, x := range envs {
				s.seq++
				x.Seq = s.seq
				s.Flight = append(s.Flight, x)
			}
		}
	}
}

// Deliver calls Accept on the recipient with the envelope's message; records event + observation.
func (s *Sim) Deliver(e *Env) Obs {
	n := s.Nodes[e.To]
	if n == nil || n.H == nil {
		return Obs{}
	}
	if s.det != nil {
		s.det.setParty(string(n.Label))
	}
	n.Events = append(n.Events, sx.List(sx.Int(0), s.msgSxP(e.Msg, e.Valid, e.Panics)))
	arg := e.Msg
	if s.Wire {
		if w, err := wireCopy(e.Msg); err == nil {
			arg = w
		} else {
			s.WireFail++
			s.Trace = append(s.Trace, fmt.Sprintf("wire: envelope %d (%s -> %s, round %d) does not cross the wire format: %v", e.Seq, e.Msg.From, e.To, e.Msg.RoundNumber, err))
		}
	}
	msgs, pan, hung := s.call(n, func() { n.H.Accept(arg) })
	o := s.observe(n, msgs, pan, 0, hung)
	n.Obs = append(n.Obs, o)
	s.SysLog = append(s.SysLog, sysRec{Kind: 0, To: e.To, Msg: e.Msg, Valid: e.Valid, Panics: e.Panics, Tag: e.Tag, ObsIdx: len(n.Obs) - 1})
	s.enqueue(n, msgs)
	return o
}

// wireCopy sends m across the wire format: MarshalBinary, a private copy of the bytes (what a socket hands over), UnmarshalBinary
// into a fresh Message.
func wireCopy(m *protocol.Message) (w *protocol.Message, err error) {
	defer func() {
		if r := recover(); r != nil {
			w, err = nil, fmt.Errorf("PANIC: %v", r)
		}
	}()
	if m == nil {
		return nil, fmt.Errorf("nil message")
	}
	b, err := m.MarshalBinary()
	if err != nil {
		return nil, err
	}
	b = append([]byte(nil), b...)
	w = new(protocol.Message)
	if err = w.UnmarshalBinary(b); err != nil {
		return nil, err
	}
	return w, nil
}

func (s *Sim) CanAccept(id party.ID, m *protocol.Message, valid bool) bool {
	n := s.Nodes[id]
	var res bool
	n.Events = append(n.Events, sx.List(sx.Int(3), s.msgSx(m, valid)))
	msgs, pan, hung := s.call(n, func() { res = n.H.CanAccept(m) })
	x := 0
	if res {
		x = 1
	}
	n.Obs = append(n.Obs, s.observe(n, msgs, pan, x, hung))
	return res
}

func (s *Sim) Stop(id party.ID) Obs {
	n := s.Nodes[id]
	n.Events = append(n.Events, sx.List(sx.Int(1)))
	msgs, pan, hung := s.call(n, func() { n.H.Stop() })
	o := s.observe(n, msgs, pan, 0, hung)
	n.Obs = append(n.Obs, o)
	s.SysLog = append(s.SysLog, sysRec{Kind: 1, To: id, ObsIdx: len(n.Obs) - 1})
	s.enqueue(n, msgs)
	return o
}

// take removes envelope i from the flight list
func (s *Sim) take(i int) *Env {
	e := s.Flight[i]
	s.Flight = append(s.Flight[:i], s.Flight[i+1:]...)
	return e
}

func (s *Sim) AllDone() bool {
	for _, n := range s.Nodes {
		if n.H == nil {
			continue
		}
		o := n.Obs[len(n.Obs)-1]
		if o.Class == 0 && o.Panic == "" && !o.Hung {
			return false
		}
	}
	return true
}

// RunFIFO delivers envelopes in emission order until none are left.
func (s *Sim) RunFIFO(max int) {
	for k := 0; len(s.Flight) > 0 && k < max; k++ {
		s.Deliver(s.take(0))
	}
}

// Policy picks the index of the next envelope to deliver (and may report that it should be kept for a duplicate).
type Policy func(s *Sim) (idx int, keep bool)

func (s *Sim) RunPolicy(p Policy, max int) {
	for k := 0; len(s.Flight) > 0 && k < max; k++ {
		i, keep := p(s)
		var e *Env
		if keep {
			e = s.Flight[i]
		} else {
			e = s.take(i)
		}
		s.Deliver(e)
	}
}

func policyRandom(dupProb float64) Policy {
	dups := 0
	return func(s *Sim) (int, bool) {
		i := s.rng.Intn(len(s.Flight))
		if dups < 30 && s.rng.Float64() < dupProb {
			dups++
			return i, true
		}
		return i, false
	}
}

// later rounds first, p2p before broadcast: always the envelope with the highest round, non-broadcast preferred
func policyLatestFirst() Policy {
	return func(s *Sim) (int, bool) {
		best := 0
		for i, e := range s.Flight {
			b := s.Flight[best]
			if e.Msg.RoundNumber > b.Msg.RoundNumber || (e.Msg.RoundNumber == b.Msg.RoundNumber && !e.Msg.Broadcast && b.Msg.Broadcast) {
				best = i
			}
		}
		return best, false
	}
}

// slow reader: nothing is delivered to `victim` while anything else can be delivered; its backlog is then handed over latest
// round first (or newest first), so that later-round messages of everybody are queued at the victim before earlier ones arrive
func policyStarve(victim party.ID, latestRoundFirst bool) Policy {
	return func(s *Sim) (int, bool) {
		for i, e := range s.Flight {
			if e.To != victim {
				return i, false
			}
		}
		best := len(s.Flight) - 1
		if latestRoundFirst {
			best = 0
			for i, e := range s.Flight {
				b := s.Flight[best]
				if e.Msg.RoundNumber > b.Msg.RoundNumber || (e.Msg.RoundNumber == b.Msg.RoundNumber && e.Msg.Broadcast && !b.Msg.Broadcast) {
					best = i
				}
			}
		}
		return best, false
	}
}

// early arrival: the round-k broadcast (or p2p message) of `from` to `victim` is held back until nothing else can be delivered,
// so that the victim sits in round k with every later message of everybody already queued
func policyHoldOne(victim, from party.ID, round int, bcast bool) Policy {
	return func(s *Sim) (int, bool) {
		held := -1
		for i, e := range s.Flight {
			if e.To == victim && e.Msg.From == from && int(e.Msg.RoundNumber) == round && e.Msg.Broadcast == bcast {
				held = i
				continue
			}
			return i, false
		}
		return held, false
	}
}

func policyLIFO() Policy {
	return func(s *Sim) (int, bool) { return len(s.Flight) - 1, false }
}

// ---------------------------------------------------------------------------------------------
// model replay

type shapeInfo struct {
	Final  int
	Bcast  map[int]bool
	P2P    map[int]int // 0 none, 1 to-all, 2 to-each
}

// learnShape derives the round table of the session from what the handlers reached and emitted.
func (s *Sim) learnShape() shapeInfo {
	sh := shapeInfo{Bcast: map[int]bool{}, P2P: map[int]int{}}
	for _, n := range s.Nodes {
		if n.MH == nil {
			continue
		}
		st := n.MH.VerifState()
		sh.Final = int(st.Final)
		for _, r := range st.Rounds {
			if r.Abort || r.Output {
				continue
			}
			sh.Bcast[int(r.Number)] = r.Broadcast
			if r.P2P && sh.P2P[int(r.Number)] == 0 {
				sh.P2P[int(r.Number)] = 2
			}
		}
		for _, m := range n.Out {
			if !m.Broadcast && m.RoundNumber > 0 && m.To == "" {
				sh.P2P[int(m.RoundNumber)] = 1
			}
		}
	}
	return sh
}

func (sh shapeInfo) sx() sx.V {
	var rs []sx.V
	for r := 0; r <= sh.Final+1; r++ {
		rs = append(rs, sx.List(sx.Bool(sh.Bcast[r]), sx.Int(int64(sh.P2P[r]))))
	}
	return sx.List(sx.Int(int64(sh.Final)), sx.List(rs...))
}

func obsSx(o Obs) sx.V {
	cul := []sx.V{}
	for _, c := range o.Culprits {
		cul = append(cul, sx.Int(int64(c)))
	}
	hr := []sx.V{}
	for _, r := range o.HashRnds {
		hr = append(hr, sx.Int(int64(r)))
	}
	rt := 0
	if o.Panic != "" {
		rt = 10
		if strings.Contains(o.Panic, "close of closed") {
			rt = 11
		} else if strings.Contains(o.Panic, "send on closed") {
			rt = 12
		} else if strings.Contains(o.Panic, roundPanicValue) {
			rt = 13
		}
	}
	if o.Hung {
		rt = 2
	}
	closes := 0
	if o.Closed {
		closes = 1
	}
	no := o.NewOut
	if no == nil {
		no = []sx.V{}
	}
	return sx.List(sx.Int(int64(o.Round)), sx.Int(int64(o.Class)), sx.List(cul...), sx.Int(int64(o.ErrKind)), sx.List(no...),
		sx.Int(int64(closes)), sx.Int(int64(rt)), sx.Int(int64(o.QB)), sx.Int(int64(o.QP)), sx.List(hr...), sx.Int(int64(o.Extra)))
}

// normalise an observation for comparison: out messages as a sorted multiset, hash rounds sorted, culprits sorted
func normObs(v sx.V) string {
	if v.Kind != 2 || len(v.L) != 11 {
		return v.String()
	}
	c := append([]sx.V{}, v.L...)
	sortL := func(x sx.V) sx.V {
		ss := make([]string, len(x.L))
		for i := range x.L {
			ss[i] = x.L[i].String()
		}
		sort.Strings(ss)
		return sx.Str(strings.Join(ss, " "))
	}
	c[2], c[4], c[9] = sortL(c[2]), sortL(c[4]), sortL(c[9])
	return sx.List(c...).String()
}

// CompareWithModel replays node n's recorded event history in the Coq handler model and returns the first
// event index at which the observation differs (-1 = all equal), with both observations.
func (c *ctx) CompareWithModel(s *Sim, n *Node, sh shapeInfo, fixedStop bool) (int, string, string, error) {
	return c.CompareWithModelNorm(s, n, sh, fixedStop, nil)
}

// CompareWithModelNorm is CompareWithModel with a caller-supplied normalisation applied to both observations of event i
// before they are compared (for behaviour the model has no event for; no caller at present: recovered panics, the one
// former use, are model events now -- Env.Panics -- and are compared in full).
func (c *ctx) CompareWithModelNorm(s *Sim, n *Node, sh shapeInfo, fixedStop bool, norm func(i int, model, real sx.V) (sx.V, sx.V)) (int, string, string, error) {
	if n.MH == nil {
		return -1, "", "", nil
	}
	st := n.MH.VerifState()
	var vht, fpt []sx.V
	for r, d := range st.Hashes {
		vht = append(vht, sx.List(sx.Int(int64(r)), sx.Int(s.Intern("digest", d))))
	}
	sort.Slice(vht, func(i, j int) bool { return vht[i].L[0].Z.Cmp(vht[j].L[0].Z) < 0 })
	seen := map[int]bool{}
	for _, m := range n.Out {
		if m.Broadcast && !seen[int(m.RoundNumber)] {
			seen[int(m.RoundNumber)] = true
			fpt = append(fpt, sx.List(sx.Int(int64(m.RoundNumber)), sx.Int(s.Intern("msg", m.Hash()))))
		}
	}
	ssid, proto := int64(0), int64(0)
	if len(n.Out) > 0 {
		ssid, proto = s.Intern("ssid", nonNil(n.Out[0].SSID)), s.Intern("proto", []byte(n.Out[0].Protocol))
	} else {
		return -1, "", "", nil
	}
	arg := sx.List(sx.Int(int64(n.Idx)), sx.Int(int64(len(s.IDs))), sx.Int(ssid), sx.Int(proto), sh.sx(),
		sx.List(vht...), sx.List(fpt...), sx.Bool(fixedStop), sx.List(n.Events...))
	rep, err := c.m.Call("hnd.run", arg)
	if err != nil {
		return 0, "", "", err
	}
	if len(rep.L) != len(n.Obs) {
		return 0, fmt.Sprintf("%d observations", len(rep.L)), fmt.Sprintf("%d observations", len(n.Obs)), nil
	}
	for i := range n.Obs {
		mv, rv := rep.L[i], obsSx(n.Obs[i])
		if norm != nil {
			mv, rv = norm(i, mv, rv)
		}
		a, b := normObs(mv), normObs(rv)
		if a != b {
			return i, a, b, nil
		}
	}
	return -1, "", "", nil
}

func sameBytes(a, b []byte) bool { return bytes.Equal(a, b) }
